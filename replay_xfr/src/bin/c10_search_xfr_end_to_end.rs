//! C10, end to end -- a bounded exploration of the real crate (never counted as an obligation): "for any pair of zone
//! versions ... a full transfer reconstructs on the receiving side exactly the sender's zone, and an incremental transfer
//! applied to the old version yields exactly the new version; the difference set a zone reports when a change is
//! committed, applied to the old content, also yields the new content".
//! Version 1 is a fixed eight-record zone; version 2 is version 1 after every non-empty subset of nine elementary changes
//! (an apex NS added, the apex A changed, an A changed below the apex, a name added, a name removed, an RRset grown, an
//! RRset shrunk, the TTL of an RRset changed, an RRset replaced with growth and shrinkage at once): 511 pairs. For each
//! pair the sender applies the change through ZoneUpdater (IXFR-style batches), and then
//!   (a) the InMemoryZoneDiff reported at commit, applied to version 1, gives version 2;
//!   (b) the XFR middleware serves the diff as an IXFR, the XfrResponseInterpreter reads the messages and a ZoneUpdater
//!       applies them to a receiver holding version 1: the receiver holds version 2;
//!   (c) the middleware serves version 2 as an AXFR to an empty receiver: the receiver holds version 2.
//! The server/client harness (Provider, serve, receive) was written by a round-7 seeding sub-agent for its demonstration
//! and is reused here as it stands.
#![allow(dead_code)]
use std::collections::BTreeSet;
use std::future::{ready, Future, Ready};
use std::ops::ControlFlow;
use std::pin::Pin;
use std::str::FromStr;
use std::sync::{Arc, Mutex};

use bytes::Bytes;
use domain::base::iana::Class;
use domain::base::{
    Message, MessageBuilder, Name, ParsedName, Record, Rtype, Serial, Ttl,
};
use domain::net::server::message::{
    NonUdpTransportContext, Request, TransportSpecificContext,
};
use domain::net::server::middleware::xfr::{
    XfrData, XfrDataProvider, XfrDataProviderError, XfrMiddlewareSvc,
};
use domain::net::server::service::{Service, ServiceResult};
use domain::net::xfr::protocol::XfrResponseInterpreter;
use domain::rdata::{Ns, Soa, ZoneRecordData, A};
use domain::zonetree::types::ZoneUpdate;
use domain::zonetree::update::ZoneUpdater;
use domain::zonetree::{InMemoryZoneDiff, Zone, ZoneBuilder};
use futures_util::stream::Once;
use futures_util::StreamExt;
use octseq::Octets;

type Rec = Record<ParsedName<Bytes>, ZoneRecordData<Bytes, ParsedName<Bytes>>>;

fn n(s: &str) -> Name<Bytes> {
    Name::from_str(s).unwrap()
}
fn pn(s: &str) -> ParsedName<Bytes> {
    ParsedName::from(n(s))
}

const APEX: &str = "example.com";

fn soa(serial: u32) -> Rec {
    Record::new(
        pn(APEX),
        Class::IN,
        Ttl::from_secs(3600),
        ZoneRecordData::Soa(Soa::new(
            pn("ns.example.com"),
            pn("admin.example.com"),
            Serial(serial),
            Ttl::from_secs(600),
            Ttl::from_secs(600),
            Ttl::from_secs(3600000),
            Ttl::from_secs(604800),
        )),
    )
}

fn a(owner: &str, ttl: u32, addr: &str) -> Rec {
    Record::new(
        pn(owner),
        Class::IN,
        Ttl::from_secs(ttl),
        ZoneRecordData::A(A::new(addr.parse().unwrap())),
    )
}

fn empty_zone() -> Zone {
    ZoneBuilder::new(n(APEX), Class::IN).build()
}

async fn build_zone(records: &[Rec], soa_rec: Rec) -> Zone {
    let zone = empty_zone();
    let mut up = ZoneUpdater::new(zone.clone()).await.unwrap();
    for r in records {
        up.apply(ZoneUpdate::AddRecord(r.clone())).await.unwrap();
    }
    up.apply(ZoneUpdate::Finished(soa_rec)).await.unwrap();
    zone
}

fn dump(zone: &Zone) -> BTreeSet<String> {
    let out = Arc::new(Mutex::new(Vec::new()));
    let out2 = out.clone();
    zone.read().walk(Box::new(move |owner, rrset, _cut| {
        for d in rrset.data() {
            out2.lock().unwrap().push(format!(
                "{} {} {} {}",
                owner,
                rrset.ttl().as_secs(),
                rrset.rtype(),
                d
            ));
        }
    }));
    let v = out.lock().unwrap().clone();
    let set: BTreeSet<String> = v.iter().cloned().collect();
    if set.len() != v.len() {
        let mut s = set.clone();
        s.insert(format!("!!DUPLICATES: {} records, {} distinct", v.len(), set.len()));
        return s;
    }
    set
}

#[derive(Clone)]
struct NextSvc;
impl Service<Vec<u8>, ()> for NextSvc {
    type Target = Vec<u8>;
    type Stream = Once<Ready<ServiceResult<Self::Target>>>;
    type Future = Ready<Self::Stream>;
    fn call(&self, _request: Request<Vec<u8>, ()>) -> Self::Future {
        unimplemented!()
    }
}

#[derive(Clone)]
struct Provider {
    zone: Zone,
    diffs: Vec<Arc<InMemoryZoneDiff>>,
    compat: bool,
}

impl XfrDataProvider<()> for Provider {
    type Diff = Arc<InMemoryZoneDiff>;
    fn request<Octs>(
        &self,
        _req: &Request<Octs, ()>,
        diff_from: Option<Serial>,
    ) -> Pin<
        Box<
            dyn Future<Output = Result<XfrData<Self::Diff>, XfrDataProviderError>>
                + Sync
                + Send
                + '_,
        >,
    >
    where
        Octs: Octets + Send + Sync,
    {
        let diffs = match diff_from {
            Some(s) => {
                // serve all diffs starting at the one whose start serial is s
                match self.diffs.iter().position(|d| d.start_serial == s) {
                    Some(p) => self.diffs[p..].to_vec(),
                    None => vec![],
                }
            }
            None => vec![],
        };
        Box::pin(ready(Ok(XfrData::new(self.zone.clone(), diffs, self.compat))))
    }
}

fn axfr_req() -> Request<Vec<u8>, ()> {
    let mut msg = MessageBuilder::new_vec().question();
    msg.header_mut().set_id(0x1234);
    msg.push((n(APEX), Rtype::AXFR)).unwrap();
    Request::new(
        "127.0.0.1:12345".parse().unwrap(),
        tokio::time::Instant::now(),
        msg.into_message(),
        TransportSpecificContext::NonUdp(NonUdpTransportContext::new(None)),
        (),
    )
}

fn ixfr_req(serial: u32) -> Request<Vec<u8>, ()> {
    let mut msg = MessageBuilder::new_vec().question();
    msg.header_mut().set_id(0x1234);
    msg.push((n(APEX), Rtype::IXFR)).unwrap();
    let mut msg = msg.authority();
    let ttl = Ttl::from_secs(0);
    let s = Soa::new(n("ns.example.com"), n("admin.example.com"), Serial(serial), ttl, ttl, ttl, ttl);
    msg.push((n(APEX), Class::IN, ttl, s)).unwrap();
    Request::new(
        "127.0.0.1:12345".parse().unwrap(),
        tokio::time::Instant::now(),
        msg.into_message(),
        TransportSpecificContext::NonUdp(NonUdpTransportContext::new(None)),
        (),
    )
}

async fn serve(p: Provider, req: &Request<Vec<u8>, ()>) -> Result<Vec<Message<Bytes>>, String> {
    let res = XfrMiddlewareSvc::<Vec<u8>, NextSvc, (), Provider>::preprocess(
        Arc::new(tokio::sync::Semaphore::new(1)),
        Arc::new(tokio::sync::Semaphore::new(1)),
        req,
        p,
    )
    .await
    .map_err(|e| format!("preprocess rcode {e}"))?;
    let ControlFlow::Break(mut stream) = res else {
        return Err("not handled".into());
    };
    let mut out = Vec::new();
    while let Some(item) = stream.next().await {
        let item = item.map_err(|e| format!("service error {e:?}"))?;
        let (resp, _fb) = item.into_inner();
        if let Some(resp) = resp {
            let bytes = Bytes::copy_from_slice(resp.as_slice());
            out.push(Message::from_octets(bytes).unwrap());
        }
    }
    Ok(out)
}

async fn receive(zone: &Zone, msgs: &[Message<Bytes>]) -> Result<Vec<Option<InMemoryZoneDiff>>, String> {
    let mut up = ZoneUpdater::new(zone.clone()).await.map_err(|e| e.to_string())?;
    let mut interp = XfrResponseInterpreter::new();
    let mut diffs = vec![];
    for m in msgs {
        let it = interp.interpret_response(m.clone()).map_err(|e| format!("interp: {e}"))?;
        for u in it {
            let u = u.map_err(|e| format!("iter: {e:?}"))?;
            let commit = matches!(u, ZoneUpdate::Finished(_) | ZoneUpdate::BeginBatchDelete(_));
            let d = up.apply(u).await.map_err(|e| format!("apply: {e}"))?;
            if commit {
                diffs.push(d);
            }
        }
    }
    if !interp.is_finished() {
        return Err("stream ended before transfer finished".into());
    }
    Ok(diffs)
}

fn show(tag: &str, s: &BTreeSet<String>) {
    println!("--- {tag}");
    for l in s {
        println!("    {l}");
    }
}


fn ns(owner: &str, ttl: u32, target: &str) -> Rec {
    Record::new(
        pn(owner),
        Class::IN,
        Ttl::from_secs(ttl),
        ZoneRecordData::Ns(Ns::new(pn(target))),
    )
}


fn cname_free() {}

/// version 1
fn base() -> Vec<Rec> {
    vec![
        ns("example.com", 3600, "ns1.example.com"),
        a("example.com", 300, "192.0.2.1"),
        a("ns1.example.com", 300, "192.0.2.53"),
        a("www.example.com", 300, "192.0.2.2"),
        a("mail.example.com", 300, "192.0.2.10"),
        a("mail.example.com", 300, "192.0.2.11"),
        a("mail.example.com", 300, "192.0.2.12"),
        a("old.example.com", 300, "192.0.2.77"),
    ]
}
/// version 2 = version 1 with the changes whose bit is set
fn changed(mask: u32) -> Vec<Rec> {
    let key = |r: &Rec| format!("{} {} {}", r.owner(), r.ttl().as_secs(), r.data());
    let mut v = base();
    let del = |v: &mut Vec<Rec>, r: Rec| { let k = key(&r); v.retain(|x| key(x) != k); };
    if mask & 1 != 0 { v.push(ns("example.com", 3600, "ns2.example.com")); v.push(a("ns2.example.com", 300, "192.0.2.54")); }
    if mask & 2 != 0 { del(&mut v, a("example.com", 300, "192.0.2.1")); v.push(a("example.com", 300, "192.0.2.9")); }
    if mask & 4 != 0 { del(&mut v, a("www.example.com", 300, "192.0.2.2")); v.push(a("www.example.com", 300, "192.0.2.3")); }
    if mask & 8 != 0 { v.push(a("new.example.com", 60, "192.0.2.88")); }
    if mask & 16 != 0 { del(&mut v, a("old.example.com", 300, "192.0.2.77")); }
    if mask & 32 != 0 { v.push(a("ns1.example.com", 300, "192.0.2.153")); }
    if mask & 64 != 0 && mask & 256 == 0 { del(&mut v, a("mail.example.com", 300, "192.0.2.11")); }
    if mask & 128 != 0 {
        // the TTL of the www RRset (whatever it holds by now)
        for r in v.iter_mut() {
            if r.owner().to_string() == "www.example.com" { r.set_ttl(Ttl::from_secs(900)); }
        }
    }
    if mask & 256 != 0 {
        // mail {.10,.11,.12} -> {.10,.13,.14,.15}: members leave and join, the size changes
        del(&mut v, a("mail.example.com", 300, "192.0.2.11"));
        del(&mut v, a("mail.example.com", 300, "192.0.2.12"));
        v.push(a("mail.example.com", 300, "192.0.2.13"));
        v.push(a("mail.example.com", 300, "192.0.2.14"));
        v.push(a("mail.example.com", 300, "192.0.2.15"));
    }
    v
}
fn lines(v: &[Rec], serial: u32) -> BTreeSet<String> {
    let mut s: BTreeSet<String> = v.iter().map(|r| format!("{} {} {} {}", r.owner(), r.ttl().as_secs(), r.rtype(), r.data())).collect();
    let so = soa(serial);
    s.insert(format!("{} {} {} {}", so.owner(), so.ttl().as_secs(), so.rtype(), so.data()));
    s
}
fn apply_diff(old: &BTreeSet<String>, diff: &InMemoryZoneDiff) -> BTreeSet<String> {
    let mut c = old.clone();
    for ((owner, _rtype), rrset) in diff.removed.iter() {
        for d in rrset.data() {
            let l = format!("{} {} {} {}", owner, rrset.ttl().as_secs(), rrset.rtype(), d);
            if !c.remove(&l) {
                c.insert(format!("!!the diff removes a record the old version does not hold: {l}"));
            }
        }
    }
    for ((owner, _rtype), rrset) in diff.added.iter() {
        for d in rrset.data() {
            c.insert(format!("{} {} {} {}", owner, rrset.ttl().as_secs(), rrset.rtype(), d));
        }
    }
    c
}
fn fail(mask: u32, what: &str, want: &BTreeSet<String>, got: &BTreeSet<String>) -> ! {
    println!("FAILING INPUT: version 2 = version 1 with change set {mask:#011b}");
    show("version 2 (want)", want);
    show(what, got);
    println!("FAIL: {what} differs from version 2");
    std::process::exit(1);
}

#[tokio::main]
async fn main() {
    let _ = cname_free;
    let v1 = base();
    let key = |r: &Rec| format!("{} {} {}", r.owner(), r.ttl().as_secs(), r.data());
    let mut n = 0u32;
    for mask in 1u32..512 {
        let v2 = changed(mask);
        let sender = build_zone(&v1, soa(1)).await;
        let receiver = build_zone(&v1, soa(1)).await;
        let old_lines = dump(&sender);
        if old_lines != lines(&v1, 1) {
            fail(mask, "the sender's version 1 as built", &lines(&v1, 1), &old_lines);
        }
        // the sender moves to version 2 the way an IXFR is applied: one batch of deletions, one of additions
        let k1: BTreeSet<String> = v1.iter().map(key).collect();
        let k2: BTreeSet<String> = v2.iter().map(key).collect();
        let mut up = ZoneUpdater::new(sender.clone()).await.unwrap();
        up.apply(ZoneUpdate::BeginBatchDelete(soa(1))).await.unwrap();
        for r in v1.iter().filter(|r| !k2.contains(&key(r))) {
            up.apply(ZoneUpdate::DeleteRecord(r.clone())).await.unwrap();
        }
        up.apply(ZoneUpdate::BeginBatchAdd(soa(2))).await.unwrap();
        for r in v2.iter().filter(|r| !k1.contains(&key(r))) {
            up.apply(ZoneUpdate::AddRecord(r.clone())).await.unwrap();
        }
        let diff = match up.apply(ZoneUpdate::Finished(soa(2))).await {
            Ok(Some(d)) => d,
            other => {
                println!("FAILING INPUT: change set {mask:#011b}: the commit reports no diff: {:?}", other.map(|o| o.is_some()).map_err(|e| e.to_string()));
                std::process::exit(1);
            }
        };
        let want = lines(&v2, 2);
        let got = dump(&sender);
        if got != want {
            fail(mask, "the sender after applying the change", &want, &got);
        }
        // (a) the reported diff leads from version 1 to version 2
        let applied = apply_diff(&old_lines, &diff);
        if applied != want {
            fail(mask, "version 1 plus the diff reported at commit", &want, &applied);
        }
        // (b) served as IXFR and applied to a receiver holding version 1
        let msgs = match serve(Provider { zone: sender.clone(), diffs: vec![Arc::new(diff)], compat: false }, &ixfr_req(1)).await {
            Ok(m) => m,
            Err(e) => { println!("FAILING INPUT: change set {mask:#011b}: the server does not serve the IXFR: {e}"); std::process::exit(1); }
        };
        if let Err(e) = receive(&receiver, &msgs).await {
            println!("FAILING INPUT: change set {mask:#011b}: the IXFR stream of {} messages is rejected by the receiver: {e}", msgs.len());
            std::process::exit(1);
        }
        let got = dump(&receiver);
        if got != want {
            fail(mask, "the receiver after the IXFR 1 -> 2", &want, &got);
        }
        // (c) served as AXFR to an empty receiver
        let fresh = empty_zone();
        let msgs = match serve(Provider { zone: sender.clone(), diffs: vec![], compat: false }, &axfr_req()).await {
            Ok(m) => m,
            Err(e) => { println!("FAILING INPUT: change set {mask:#011b}: the server does not serve the AXFR: {e}"); std::process::exit(1); }
        };
        if let Err(e) = receive(&fresh, &msgs).await {
            println!("FAILING INPUT: change set {mask:#011b}: the AXFR stream of {} messages is rejected by the receiver: {e}", msgs.len());
            std::process::exit(1);
        }
        let got = dump(&fresh);
        if got != want {
            fail(mask, "an empty receiver after the AXFR of version 2", &want, &got);
        }
        n += 1;
    }
    println!("OK: {n} version pairs: reported diff, IXFR and AXFR all lead to version 2");
}
