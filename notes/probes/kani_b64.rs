#[cfg(kani)]
mod h {
    use domain::utils::base64;
    use core::fmt::Write;

    struct Sink { buf: [u8; 8], len: usize }
    impl Write for Sink {
        fn write_str(&mut self, s: &str) -> core::fmt::Result {
            for &b in s.as_bytes() {
                if self.len >= 8 { return Err(core::fmt::Error); }
                self.buf[self.len] = b; self.len += 1;
            }
            Ok(())
        }
    }
    const ALPHA: &[u8; 64] = b"ABCDEFGHIJKLMNOPQRSTUVWXYZabcdefghijklmnopqrstuvwxyz0123456789+/";

    #[kani::proof]
    #[kani::unwind(6)]
    fn b64_enc3() {
        let x: [u8; 3] = kani::any();
        let mut out = Sink { buf: [0; 8], len: 0 };
        base64::display(&x, &mut out).unwrap();
        assert!(out.len == 4);
        assert!(out.buf[0] == ALPHA[(x[0] >> 2) as usize]);
        assert!(out.buf[1] == ALPHA[(((x[0] & 3) << 4) | (x[1] >> 4)) as usize]);
        assert!(out.buf[2] == ALPHA[(((x[1] & 15) << 2) | (x[2] >> 6)) as usize]);
        assert!(out.buf[3] == ALPHA[(x[2] & 63) as usize]);
    }

    #[kani::proof]
    #[kani::unwind(6)]
    fn b64_dec4() {
        let c: [u8; 4] = kani::any();
        let mut dec = base64::Decoder::<octseq::array::Array<4>>::new();
        let mut ok = true;
        let mut i = 0;
        while i < 4 { if dec.push(c[i] as char).is_err() { ok = false; break; } i += 1; }
        if ok {
            match dec.finalize() {
                Ok(v) => { kani::cover!(v.len() == 3); kani::cover!(v.len() == 1); assert!(v.len() >= 1 && v.len() <= 3); }
                Err(_) => {}
            }
        }
    }
}
