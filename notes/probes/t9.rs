use vstd::prelude::*;
verus! {

#[verifier::external_body]
pub struct BytesMut { v: Vec<u8> }
impl View for BytesMut { type V = Seq<u8>; uninterp spec fn view(&self) -> Seq<u8>; }
impl BytesMut {
    #[verifier::external_body]
    pub fn get(&self, i: usize) -> (r: Option<&u8>) 
        ensures i < self@.len() ==> r == Some(&self@[i as int]), i >= self@.len() ==> r is None
    { self.v.get(i) }
}

#[derive(Clone, Copy, Debug, PartialEq, Eq)]
pub enum ItemCat { None, Unquoted, Quoted, LineFeed }
pub struct EntryError;
impl EntryError { pub fn unbalanced_parens() -> Self { EntryError } }

pub struct SourceBuf {
    pub buf: BytesMut,
    pub current_offset: usize,
    pub start: usize,
    pub cat: ItemCat,
    pub has_space: bool,
    pub parens: usize,
    pub line_num: usize,
    pub line_start: isize,
}

impl SourceBuf {
    fn next_item(&mut self) -> (r: Result<(), EntryError>) 
        requires old(self).start <= old(self).buf@.len(), old(self).cat == ItemCat::None || old(self).cat == ItemCat::LineFeed,
           old(self).parens + old(self).buf@.len() < usize::MAX, old(self).line_num + old(self).buf@.len() < usize::MAX,
           old(self).buf@.len() < isize::MAX
        ensures final(self).start <= final(self).buf@.len()
    {
        assert!(
            matches!(self.cat, ItemCat::None | ItemCat::LineFeed),
            "token not completely read ({:?} at {}:{})",
            self.cat,
            self.line_num,
            ((self.start as isize) + 1 - self.line_start) as usize,
        );

        self.has_space = false;

        loop 
            invariant self.start <= self.buf@.len(), self.buf@ == old(self).buf@,
               self.parens + (self.buf@.len() - self.start) < usize::MAX,
               self.line_num + (self.buf@.len() - self.start) < usize::MAX,
               self.buf@.len() < isize::MAX
            decreases self.buf@.len() - self.start
        {
            let ch = match self.buf.get(self.start) {
                Some(ch__r) => { let ch = *ch__r; ch }
                None => {
                    self.cat = ItemCat::None;
                    return Ok(());
                }
            };

            // Skip and mark actual white space.
            if matches!(ch, b' ' | b'\t' | b'\r') {
                self.has_space = true;
                self.start += 1;
            }
            // CR: ignore for compatibility with Windows-style line endings.
            else if ch == b'\r' {
                self.start += 1;
            }
            // Opening parenthesis: increase group level.
            else if ch == b'(' {
                self.parens += 1;
                self.start += 1;
            }
            // Closing parenthesis: decrease group level or error out.
            else if ch == b')' {
                if self.parens > 0 {
                    self.parens -= 1;
                    self.start += 1;
                } else {
                    return Err(EntryError::unbalanced_parens());
                }
            }
            // Semicolon: comment -- skip to line end.
            else if ch == b';' {
                self.start += 1;
                while let Some(true) =
                    self.buf.get(self.start).map(|ch| *ch != b'\n')
                    invariant self.start <= self.buf@.len(), self.buf@ == old(self).buf@,
                    decreases self.buf@.len() - self.start
                {
                    self.start += 1;
                }
                // Next iteration deals with the LF.
            }
            // Line end: skip over it. Ignore if we are inside a paren group.
            else if ch == b'\n' {
                self.start += 1;
                self.line_num += 1;
                self.line_start = self.start as isize;
                if self.parens == 0 {
                    self.cat = ItemCat::LineFeed;
                    break;
                }
            }
            // Double quote: quoted token
            else if ch == b'"' {
                self.start += 1;
                self.cat = ItemCat::Quoted;
                break;
            }
            // Else: unquoted token
            else {
                self.cat = ItemCat::Unquoted;
                break;
            }
        }
        Ok(())
    }
}

}
fn main() {}
