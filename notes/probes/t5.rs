use vstd::prelude::*;
verus! {

pub struct ShortBuf;

pub trait OctetsBuilder {
    spec fn view(&self) -> Seq<u8>;
    spec fn cap(&self) -> nat;
    fn append_slice(&mut self, slice: &[u8]) -> (r: Result<(), ShortBuf>)
        ensures 
            r is Ok ==> final(self).view() == old(self).view() + slice@,
            r is Err ==> final(self).view() == old(self).view(),
            final(self).cap() == old(self).cap(),
            (old(self).view().len() + slice@.len() <= old(self).cap()) ==> r is Ok;
    fn as_ref(&self) -> (r: &[u8]) ensures r@ == self.view();
    fn set_at(&mut self, idx: usize, val: u8)
        requires idx < old(self).view().len()
        ensures final(self).view() == old(self).view().update(idx as int, val), final(self).cap() == old(self).cap();
}

#[derive(Clone, Copy, Debug, Eq, PartialEq)]
pub enum PushError {
    LongLabel,
    LongName,
    ShortBuf,
}

pub struct NameBuilder<Builder> {
    pub builder: Builder,
    pub head: Option<usize>,
}

pub const MAX_LEN: usize = 63;

impl<Builder> NameBuilder<Builder>
where
    Builder: OctetsBuilder,
{
    pub open spec fn wf(&self) -> bool {
        match self.head {
            Some(h) => h < self.builder.view().len() && self.builder.view().len() - h <= 64 && self.builder.view().len() <= 254,
            None => self.builder.view().len() <= 254
        }
    }

    pub fn len(&self) -> (r: usize) ensures r == self.builder.view().len() {
        self.builder.as_ref().len()
    }

    fn _append_slice(&mut self, slice: &[u8]) -> (r: Result<(), PushError>) 
        ensures 
            r is Ok ==> final(self).builder.view() == old(self).builder.view() + slice@,
            r is Err ==> final(self).builder.view() == old(self).builder.view(),
            final(self).head == old(self).head,
    {
        self.builder
            .append_slice(slice)
            .map_err(|_e: ShortBuf| PushError::ShortBuf)
    }

    pub fn push(&mut self, ch: u8) -> (r: Result<(), PushError>) 
        requires old(self).wf()
        ensures final(self).wf()
    {
        let len = self.len();
        if len >= 254 {
            return Err(PushError::LongName);
        }
        if let Some(head) = self.head {
            if len - head > MAX_LEN {
                return Err(PushError::LongLabel);
            }
            self._append_slice(&[ch])?;
        } else {
            self.head = Some(len);
            self._append_slice(&[0, ch])?;
        }
        Ok(())
    }
}

}
fn main() {}
