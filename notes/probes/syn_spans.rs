use syn::visit::Visit;
use syn::spanned::Spanned;
struct V;
impl<'ast> Visit<'ast> for V {
    fn visit_impl_item_fn(&mut self, f: &'ast syn::ImplItemFn) {
        let s = f.span();
        println!("fn {} {}:{}-{}:{}", f.sig.ident, s.start().line, s.start().column, s.end().line, s.end().column);
        struct L; 
        impl<'a> Visit<'a> for L {
            fn visit_expr_loop(&mut self, l: &'a syn::ExprLoop) { println!("   loop body at {}:{}", l.body.span().start().line, l.body.span().start().column); syn::visit::visit_expr_loop(self, l); }
            fn visit_expr_while(&mut self, l: &'a syn::ExprWhile) { println!("   while body at {}:{}", l.body.span().start().line, l.body.span().start().column); syn::visit::visit_expr_while(self, l); }
            fn visit_expr_for_loop(&mut self, l: &'a syn::ExprForLoop) { println!("   for body at {}:{}", l.body.span().start().line, l.body.span().start().column); syn::visit::visit_expr_for_loop(self, l); }
        }
        L.visit_impl_item_fn(f);
    }
}
fn main() {
    let p = std::env::args().nth(1).unwrap();
    let src = std::fs::read_to_string(&p).unwrap();
    let file = syn::parse_file(&src).unwrap();
    V.visit_file(&file);
}
