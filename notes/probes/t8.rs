use vstd::prelude::*;
verus! {

pub assume_specification<T: Ord> [core::cmp::min::<T>] (a: T, b: T) -> (r: T);

pub struct Queries<T> {
    pub count: usize,
    pub curr: usize,
    pub vec: Vec<Option<T>>,
}

impl<T> Queries<T> {
    pub open spec fn wf(&self) -> bool {
        &&& self.curr <= self.vec@.len()
        &&& forall|i: int| 0 <= i < self.curr ==> self.vec@[i] is Some
        &&& self.count <= self.vec@.len()
    }

    fn insert(&mut self, req: T) -> (r: Result<(u16, &mut T), T>) 
        requires old(self).wf(), old(self).vec@.len() <= 65535
    {
        if 2 * self.count > u16::MAX as usize {
            return Err(req);
        }

        let idx = if self.vec.len() >= 2 * self.count {
            let mut found = None;
            for idx in self.curr..self.vec.len() {
                if self.vec[idx].is_none() {
                    found = Some(idx);
                    break;
                }
            }
            found
        } else {
            None
        };

        let idx = match idx {
            Some(idx) => {
                self.vec[idx] = Some(req);
                idx
            }
            None => {
                let idx = self.vec.len();
                self.vec.push(Some(req));
                idx
            }
        };

        self.count += 1;
        if idx == self.curr {
            self.curr += 1;
        }
        let req = self.vec[idx].as_mut().expect("no inserted item?");
        let idx = u16::try_from(idx).expect("query vec too large");
        Ok((idx, req))
    }

    fn try_remove(&mut self, index: u16) -> Option<T> {
        let res = self.vec.get_mut(usize::from(index))?.take()?;
        self.count = self.count.saturating_sub(1);
        self.curr = core::cmp::min(self.curr, index.into());
        Some(res)
    }
}

}
fn main() {}
