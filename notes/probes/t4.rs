use vstd::prelude::*;
use vstd::slice::*;
verus! {

#[repr(transparent)]
pub struct Label(pub [u8]);

pub enum LabelTypeError { Undefined, Extended(u8) }
pub enum SplitLabelError { Pointer(u16), BadType(LabelTypeError), ShortInput }

impl Label {
    pub const MAX_LEN: usize = 63;

    #[verifier::external_body]
    pub const unsafe fn from_slice_unchecked(slice: &[u8]) -> (r: &Self) 
        ensures r.0@ == slice@
    {
        unsafe { core::mem::transmute(slice) }
    }

    pub const fn split_from(
        slice: &[u8],
    ) -> (r: Result<(&Self, &[u8]), SplitLabelError>) 
        ensures r is Ok ==> ({ let (l, t) = r->Ok_0; slice@.len() > 0 && slice@[0] <= 63 && l.0@ == slice@.subrange(1, 1 + slice@[0] as int) && t@ == slice@.subrange(1 + slice@[0] as int, slice@.len() as int) })
    {
        let head = match slice.first() {
            Some(ch) => *ch,
            None => return Err(SplitLabelError::ShortInput),
        };
        let end = match head {
            0..=0x3F => (head as usize) + 1,
            0x40..=0x7F => {
                return Err(SplitLabelError::BadType(
                    LabelTypeError::Extended(head),
                ));
            }
            0xC0..=0xFF => {
                if slice.len() < 2 {
                    return Err(SplitLabelError::ShortInput);
                }
                let res = slice[1] as u16;
                let res = res | (((head as u16) & 0x3F) << 8);
                return Err(SplitLabelError::Pointer(res));
            }
            _ => {
                return Err(SplitLabelError::BadType(
                    LabelTypeError::Undefined,
                ));
            }
        };
        if slice.len() < end {
            return Err(SplitLabelError::ShortInput);
        }

        let (left, right) = slice.split_at(end);
        let (_, label_data) = left.split_at(1);
        Ok((unsafe { Self::from_slice_unchecked(label_data) }, right))
    }
}

impl Label {
    pub const fn as_slice(&self) -> (r: &[u8]) ensures r@ == self.0@ {
        &self.0
    }
    pub fn len(&self) -> (r: usize) ensures r == self.0@.len() {
        self.as_slice().len()
    }
    pub const fn is_empty(&self) -> (r: bool) ensures r == (self.0@.len() == 0) {
        self.as_slice().is_empty()
    }
    pub const fn is_root(&self) -> (r: bool) ensures r == (self.0@.len() == 0) {
        self.is_empty()
    }
}

pub struct NameError(pub DnameErrorEnum);
pub enum DnameErrorEnum { BadLabel(LabelTypeError), CompressedName, ShortInput, LongName, TrailingData, RelativeName }
impl From<SplitLabelError> for NameError {
    fn from(err: SplitLabelError) -> Self {
        match err {
            SplitLabelError::Pointer(_) => NameError(DnameErrorEnum::CompressedName),
            SplitLabelError::BadType(t) => NameError(DnameErrorEnum::BadLabel(t)),
            SplitLabelError::ShortInput => NameError(DnameErrorEnum::ShortInput),
        }
    }
}

pub open spec fn abs_name(s: Seq<u8>) -> bool 
    decreases s.len()
{
    s.len() >= 1 && s[0] <= 63 && s.len() >= 1 + s[0] && (
      if s[0] == 0 { s.len() == 1 } else { abs_name(s.subrange(1 + s[0] as int, s.len() as int)) }
    )
}

pub struct Name;
impl Name {
    pub const MAX_LEN: usize = 255;

    fn check_slice(mut slice: &[u8]) -> (r: Result<(), NameError>) 
        ensures r is Ok <==> (slice@.len() <= 255 && abs_name(slice@))
    {
        if slice.len() > Name::MAX_LEN {
            return Err(NameError(DnameErrorEnum::LongName));
        }
        let ghost orig = slice@;
        loop 
            invariant abs_name(orig) <==> abs_name(slice@), 
            decreases slice@.len()
        {
            let (label, tail) = Label::split_from(slice)?;
            if label.is_root() {
                if tail.is_empty() {
                    break;
                } else {
                    return Err(NameError(DnameErrorEnum::TrailingData));
                }
            }
            if tail.is_empty() {
                return Err(NameError(DnameErrorEnum::RelativeName));
            }
            slice = tail;
        }
        Ok(())
    }
}

pub struct SliceLabelsIter<'a> {
    pub slice: &'a [u8],
    pub start: usize,
}

impl<'a> SliceLabelsIter<'a> {
    fn next(&mut self) -> Option<&'a Label> {
        if self.start >= self.slice.len() {
            return None;
        }

        loop 
          invariant self.start < self.slice@.len()
          decreases self.start
        {
            match Label::split_from(&self.slice[self.start..]) {
                Ok((label, _)) => {
                    if label.is_root() {
                        self.start = usize::MAX;
                    } else {
                        self.start += label.len() + 1;
                    }
                    return Some(label);
                }
                Err(SplitLabelError::Pointer(pos)) => {
                    let pos = pos as usize;
                    if pos > self.start {
                        self.start = usize::MAX;
                        return None;
                    }
                    self.start = pos;
                    continue;
                }
                Err(_) => {
                    self.start = usize::MAX;
                    return None;
                }
            }
        }
    }
}

}
fn main() {}
