use vstd::prelude::*;
verus! {

pub assume_specification<T> [<[T] as std::convert::AsRef<[T]>>::as_ref] (s: &[T]) -> (r: &[T]) ensures r == s;

pub struct ShortInput(pub ());
pub struct FormError(pub &'static str);
impl FormError { pub fn new(msg: &'static str) -> Self { FormError(msg) } }
pub enum ParseError { ShortInput, Form(FormError) }
impl From<ShortInput> for ParseError { fn from(_e: ShortInput) -> ParseError { ParseError::ShortInput } }
pub enum ParsedDnameError { LongName, ExcessiveCompression }
impl From<ParsedDnameError> for ParseError { fn from(_e: ParsedDnameError) -> ParseError { ParseError::Form(FormError::new("x")) } }

#[derive(Clone, Copy)]
pub struct Parser<'a> {
    pub octets: &'a [u8],
    pub pos: usize,
    pub len: usize,
}

impl<'a> Parser<'a> {
    pub open spec fn wf(&self) -> bool { self.pos <= self.len && self.len <= self.octets@.len() }

    pub fn octets_ref(&self) -> (r: &'a [u8]) ensures r == self.octets { self.octets }
    pub fn pos(&self) -> (r: usize) ensures r == self.pos { self.pos }

    pub fn remaining(&self) -> (r: usize)
        requires self.wf()
        ensures r == self.len - self.pos
    {
        self.len - self.pos
    }

    pub fn seek(&mut self, pos: usize) -> (r: Result<(), ShortInput>) 
        requires old(self).wf()
        ensures final(self).wf(), final(self).octets == old(self).octets, final(self).len == old(self).len,
           r is Ok ==> final(self).pos == pos,
           r is Err ==> final(self).pos == old(self).pos,
    {
        if pos > self.len {
            Err(ShortInput(()))
        } else {
            self.pos = pos;
            Ok(())
        }
    }

    pub fn advance(&mut self, len: usize) -> (r: Result<(), ShortInput>)
        requires old(self).wf()
        ensures final(self).wf(), final(self).octets == old(self).octets, final(self).len == old(self).len,
           r is Ok ==> final(self).pos == old(self).pos + len,
           r is Err ==> final(self).pos == old(self).pos,
    {
        if len > self.remaining() {
            Err(ShortInput(()))
        } else {
            self.pos += len;
            Ok(())
        }
    }
    pub fn check_len(&self, len: usize) -> (r: Result<(), ShortInput>) 
        requires self.wf()
        ensures r is Ok <==> self.len - self.pos >= len
    {
        if self.remaining() < len {
            Err(ShortInput(()))
        } else {
            Ok(())
        }
    }
    pub fn peek(&self, len: usize) -> (r: Result<&[u8], ShortInput>) 
        requires self.wf()
        ensures r is Ok <==> self.len - self.pos >= len,
            r is Ok ==> r->Ok_0@ == self.octets@.subrange(self.pos as int, self.pos + len)
    {
        self.check_len(len)?;
        Ok(&self.peek_all()[..len])
    }

    pub fn peek_all(&self) -> (r: &[u8]) 
        requires self.wf()
        ensures r@ == self.octets@.subrange(self.pos as int, self.len as int)
    {
        &self.octets.as_ref()[self.pos..self.len]
    }
    pub fn parse_u8(&mut self) -> (r: Result<u8, ShortInput>) 
        requires old(self).wf()
        ensures final(self).wf(), final(self).octets == old(self).octets, final(self).len == old(self).len,
           r is Ok ==> final(self).pos == old(self).pos + 1 && r->Ok_0 == old(self).octets@[old(self).pos as int],
           r is Err ==> final(self).pos == old(self).pos,
    {
        let res = self.peek(1)?[0];
        self.pos += 1;
        Ok(res)
    }
}

#[derive(Clone, Copy, Debug, Eq, PartialEq)]
enum LabelType {
    Normal(u16),
    Compressed(usize),
}

impl LabelType {
    pub fn parse(
        parser: &mut Parser<'_>,
    ) -> (r: Result<Self, ParseError>) 
        requires old(parser).wf()
        ensures final(parser).wf(), final(parser).octets == old(parser).octets, final(parser).len == old(parser).len,
    {
        let ltype = parser.parse_u8()?;
        match ltype {
            0..=0x3F => Ok(LabelType::Normal(ltype.into())),
            0xC0..=0xFF => {
                let res = usize::from(parser.parse_u8()?);
                let res = res | ((usize::from(ltype) & 0x3F) << 8);
                Ok(LabelType::Compressed(res))
            }
            _ => Err(ParseError::Form(FormError::new("invalid label type"))),
        }
    }
}

pub struct ParsedName<Octs> {
    pub octets: Octs,
    pub pos: usize,
    pub name_len: u16,
    pub compressed: bool,
}

impl<'a> ParsedName<&'a [u8]> {
    pub fn parse_ref(
        parser: &mut Parser<'a>,
    ) -> (r: Result<Self, ParseError>) 
        requires old(parser).wf()
    {
        let mut name_len = 0;
        let mut pos = parser.pos();

        // Phase One: No compression pointers have been found yet.
        let mut ptr: usize;
        loop {
            match LabelType::parse(parser)? {
                LabelType::Normal(0) => {
                    // Root label.
                    name_len += 1;
                    return Ok(ParsedName {
                        octets: parser.octets_ref(),
                        pos,
                        name_len,
                        compressed: false,
                    });
                }
                LabelType::Normal(label_len) => {
                    parser.advance(usize::from(label_len))?;
                    name_len += label_len + 1;
                    if name_len >= 255 {
                        return Err(ParsedDnameError::LongName.into());
                    }
                }
                LabelType::Compressed(ptr_) => {
                    ptr = ptr_; break;
                }
            }
        }

        let mut parser = *parser;
        let mut compressed = true;
        loop {
            if ptr >= parser.pos() - 2 {
                return Err(ParsedDnameError::ExcessiveCompression.into());
            }
            if name_len == 0 {
                pos = ptr;
                compressed = false;
            }
            parser.seek(ptr)?;

            loop {
                match LabelType::parse(&mut parser)? {
                    LabelType::Normal(0) => {
                        // Root label.
                        name_len += 1;
                        return Ok(ParsedName {
                            octets: parser.octets_ref(),
                            pos,
                            name_len,
                            compressed,
                        });
                    }
                    LabelType::Normal(label_len) => {
                        parser.advance(usize::from(label_len))?;
                        name_len += label_len + 1;
                        if name_len >= 255 {
                            return Err(ParsedDnameError::LongName.into());
                        }
                    }
                    LabelType::Compressed(new_ptr) => {
                        ptr = new_ptr;
                        compressed = true;
                        break;
                    }
                }
            }
        }
    }
}

}
fn main() {}
