use vstd::prelude::*;
verus! {

pub assume_specification<T, E> [core::result::Result::<T, E>::as_mut] (r: &mut Result<T, E>) -> (res: Result<&mut T, &mut E>)
    ensures 
        (*old(r)) is Ok <==> res is Ok,
        (*old(r)) is Ok ==> *res->Ok_0 == (*old(r))->Ok_0 && (*final(r)) is Ok && (*final(r))->Ok_0 == *final(res->Ok_0),
        (*old(r)) is Err ==> *res->Err_0 == (*old(r))->Err_0 && (*final(r)) is Err && (*final(r))->Err_0 == *final(res->Err_0),
;

pub struct ShortBuf;
#[derive(Clone, Copy, Debug, Eq, PartialEq)]
pub enum DecodeError { IllegalChar(char), TrailingInput, ShortInput, ShortBuf }
impl From<ShortBuf> for DecodeError { fn from(_e: ShortBuf) -> Self { DecodeError::ShortBuf } }

pub trait OctetsBuilder {
    type AppendError: Into<ShortBuf>;
    spec fn view(&self) -> Seq<u8>;
    fn append_slice(&mut self, slice: &[u8]) -> (r: Result<(), Self::AppendError>)
        ensures 
            r is Ok ==> final(self).view() == old(self).view() + slice@,
            r is Err ==> final(self).view() == old(self).view();
}

const PAD: char = '=';

pub struct Decoder<Builder> {
    pub buf: [u8; 4],
    pub next: usize,
    pub target: Result<Builder, DecodeError>,
}

#[verifier::external_body]
pub fn decode_alphabet(i: usize) -> (r: u8) requires i < 128 ensures r == 0xFF || r < 64 { unimplemented!() }

impl<Builder: OctetsBuilder> Decoder<Builder> {
    pub open spec fn wf(&self) -> bool {
        (self.next == 0xF0 || self.next < 4) 
        && (forall|i: int| 0 <= i < self.next && self.next < 4 ==> (self.buf[i] < 64 || (i >= 2 && self.buf[i] == 0x80)))
    }

    pub fn push(&mut self, ch: char) -> (r: Result<(), DecodeError>) 
        requires old(self).wf(), old(self).target is Ok
        ensures final(self).wf()
    {
        if self.next == 0xF0 {
            self.target = Err(DecodeError::TrailingInput);
            return Err(DecodeError::TrailingInput);
        }

        let val = if ch == PAD {
            // Only up to two padding characters possible.
            if self.next < 2 {
                return Err(DecodeError::IllegalChar(ch));
            }
            0x80 // Acts as a marker later on.
        } else {
            if ch > (127 as char) {
                return Err(DecodeError::IllegalChar(ch));
            }
            let val = decode_alphabet(ch as usize);
            if val == 0xFF {
                return Err(DecodeError::IllegalChar(ch));
            }
            val
        };
        self.buf[self.next] = val;
        self.next += 1;

        if self.next == 4 {
            let target = self.target.as_mut().unwrap(); // Err covered above.
            target
                .append_slice(&[(self.buf[0] << 2) | (self.buf[1] >> 4)])
                .map_err(Into::into)?;
            if self.buf[2] != 0x80 {
                target
                    .append_slice(&[(self.buf[1] << 4) | (self.buf[2] >> 2)])
                    .map_err(Into::into)?;
            }
            if self.buf[3] != 0x80 {
                if self.buf[2] == 0x80 {
                    return Err(DecodeError::TrailingInput);
                }
                target
                    .append_slice(&[(self.buf[2] << 6) | self.buf[3]])
                    .map_err(Into::into)?;
                self.next = 0
            } else {
                self.next = 0xF0
            }
        }

        Ok(())
    }
}

}
fn main() {}
