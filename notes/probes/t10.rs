use vstd::prelude::*;
verus! {
pub fn key_tag_loop(key: &[u8], init: u32) -> (r: u32) 
   requires key@.len() <= 65535, init <= 0x1FFFF
{
    let mut res: u32 = init;
    let mut iter = key.iter();
    loop 
      decreases 1int
    {
        match iter.next() {
            Some(x__r) => { let x = *x__r; res += u32::from(x) << 8 },
            None => break,
        }
        match iter.next() {
            Some(x__r) => { let x = *x__r; res += u32::from(x) },
            None => break,
        }
    }
    res
}
}
fn main() {}
