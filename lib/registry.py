"""Which machinery decides which property.

Per property:
  level            category for MANIFEST/evidence ('proof' only where every counted obligation
                   is an unbounded Verus query or a K-complete harness)
  units            vx units (Verus on extracted text) -- always run in both tiers
  kani             list of harness dicts: group, name, kind ('complete'|'bounded'), bound (text),
                   tier ('quick'|'thorough'), what (text)
  explanation, not_covered, trusted (extra trusted-base lines)
"""

COMMON_TRUST = [
    "rustc, Verus 0.2026.09.13 + Z3, Kani 0.68 + CBMC 6.11 tool chains",
    "vxextract/vxlib edit list (DESIGN 3.1): DROP_ATTR, VIS, MONO, RENAME, INSERT_SPEC, DESUGAR_*; every application is logged in coverage.extraction",
    "hand-written impl headers in unit.vrs replace the real impl headers (IMPL_HEADER rule)",
]

PROPS = {
    "C17": {
        "level": "proof",
        "units": ["serial"],
        "kani": [
            {"group": "g0", "name": "c17_partial_cmp_matches_rfc1982", "kind": "complete", "tier": "quick",
             "what": "Serial::partial_cmp == RFC 1982 section 3.2 on all 2^64 pairs (compiled code)"},
            {"group": "g0", "name": "c17_add_strictly_greater", "kind": "complete", "tier": "quick",
             "what": "Serial::add(n) for all a and all 1 <= n <= 2^31-1 is (a+n) mod 2^32 and compares Greater"},
            {"group": "g0", "name": "c17_antisymmetric", "kind": "complete", "tier": "quick",
             "what": "partial_cmp(a,b) == reverse(partial_cmp(b,a)) for all pairs"},
            {"group": "g0", "name": "c17_translation_invariant", "kind": "complete", "tier": "quick",
             "what": "partial_cmp(a+n,b+n) == partial_cmp(a,b) for all a,b and all n <= 2^31-1"},
        ],
        "explanation": "Serial::add and Serial::partial_cmp (real text) carry the RFC 1982 spec functions as postconditions; "
                       "the four laws of the property are lemmas over those spec functions and exec wrappers over the contracts; "
                       "Kani re-proves the laws on the compiled code over the full u32 domains (loop-free, complete).",
        "not_covered": "Timestamp (rdata/dnssec.rs) and zonetree Version delegate to Serial; their delegation is covered by "
                       "Kani harnesses only where listed.",
    },
    "C18": {
        "level": "proof",
        "units": ["base64", "base32", "base16"],
        "kani": (
            [{"group": "g0", "name": f"c18_b64_display_len{n}", "kind": "complete", "tier": "quick",
              "what": f"base64::display of every {n}-octet chunk equals the RFC 4648 section 4 encoding (arithmetic spec)"} for n in (1, 2, 3)]
            + [{"group": "g0", "name": f"c18_b32_display_len{n}", "kind": "complete", "tier": "quick",
                "what": f"base32::display_hex of every {n}-octet chunk equals the RFC 4648 section 7 encoding without padding"} for n in (1, 2, 3, 4, 5)]
            + [{"group": "g0", "name": "c18_b16_display_len1", "kind": "complete", "tier": "quick",
                "what": "base16::display of every octet equals the RFC 4648 section 8 encoding"},
               {"group": "g0", "name": "c18_char_to_digit16_matches_rfc", "kind": "complete", "tier": "quick",
                "what": "core's char::to_digit(16) (assumed in units/base16) equals the RFC 4648 Base16 value function for every char"},
               {"group": "g0", "name": "c18_b16_roundtrip_len1", "kind": "complete", "tier": "quick",
                "what": "compiled base16 Decoder inverts display for every octet"}]
            + [{"group": "g0", "name": f"c18_b64_roundtrip_len{n}", "kind": "complete", "tier": "quick",
                "what": f"compiled base64 Decoder inverts display on every {n}-octet chunk"} for n in (1, 2, 3)]
            + [{"group": "g0", "name": f"c18_b32_roundtrip_len{n}", "kind": "complete", "tier": "thorough", "timeout": 900,
                "what": f"compiled base32 Decoder inverts display_hex on every {n}-octet chunk"} for n in (1, 2, 3, 4, 5)]
            + [{"group": "g0", "name": "c18_b64_display_len5_bounded", "kind": "bounded", "bound": "5 octets (chunks 3+2)", "tier": "quick",
                "what": "composition of base64::display over two chunks"},
               {"group": "g0", "name": "c18_b32_display_len6_bounded", "kind": "bounded", "bound": "6 octets (chunks 5+1)", "tier": "quick",
                "what": "composition of base32::display_hex over two chunks"},
               {"group": "g0", "name": "c18_b16_display_len2_bounded", "kind": "bounded", "bound": "2 octets", "tier": "quick",
                "what": "composition of base16::display over two octets"}]
        ),
        "explanation": "Decoder::{push, finalize} of base64, base32 (extended hex) and base16 and their helpers (real text) are proved "
                       "to implement one step / the end of the RFC 4648 state machines (b64_step, b32_step, b16_step; alphabet tables "
                       "proved equal to the RFC tables), with the representation invariant preserved on every exit, so no index or "
                       "unwrap can panic for any call sequence on a growable target. Lemmas over those contracts: decode(encode(x)) == x "
                       "for every octet string (induction over groups), splitting the text anywhere gives the same state "
                       "(run_concat), Base16 accepts exactly even-length hex text. The encoders use slice::chunks and fmt::Write "
                       "(outside Verus): Kani proves display* == the same RFC arithmetic per chunk length over all octet values.",
        "not_covered": "Multi-chunk encoder output beyond the bounded harnesses rests on slice::chunks composing per chunk (assumed). "
                       "SymbolConverter (scanner-side decoders) not yet under contract. Standard-alphabet Base32 is not implemented by the "
                       "library. Fixed-capacity targets that refuse to grow (ShortBuf) are outside the contracts (D13). "
                       "Non-canonical trailing bits are accepted by the decoders (RFC 4648 section 3.5 permits either).",
        "assumptions": [
            "decode()/decode_hex() iterate a &str (outside Verus' subset): their 4-line loops are represented by caller_model_* functions over the push/finalize contracts",
            "octseq OctetsBuilder/FreezeBuilder/EmptyBuilder are modelled by prelude traits (append_slice appends or fails leaving the content unchanged)",
        ],
    },
}
