"""Which machinery decides which property.

Per property:
  level            category for MANIFEST/evidence ('proof' only where every counted obligation
                   is an unbounded Verus query or a K-complete harness)
  units            vx units (Verus on extracted text) -- always run in both tiers
  kani             list of harness dicts: group, name, kind ('complete'|'bounded'), bound (text),
                   tier ('quick'|'thorough'), what (text)
  explanation, not_covered, trusted (extra trusted-base lines)
"""

COMMON_TRUST = [
    "rustc, Verus 0.2026.09.13 + Z3, Kani 0.68 + CBMC 6.11 tool chains",
    "vxextract/vxlib edit list (DESIGN 3.1): DROP_ATTR, VIS, MONO, RENAME, INSERT_SPEC, DESUGAR_*; every application is logged in coverage.extraction",
    "hand-written impl headers in unit.vrs replace the real impl headers (IMPL_HEADER rule)",
]

PROPS = {
    "C17": {
        "level": "proof",
        "units": ["serial"],
        "kani": [
            {"group": "g0", "name": "c17_partial_cmp_matches_rfc1982", "kind": "complete", "tier": "quick",
             "what": "Serial::partial_cmp == RFC 1982 section 3.2 on all 2^64 pairs (compiled code)"},
            {"group": "g0", "name": "c17_add_strictly_greater", "kind": "complete", "tier": "quick",
             "what": "Serial::add(n) for all a and all 1 <= n <= 2^31-1 is (a+n) mod 2^32 and compares Greater"},
            {"group": "g0", "name": "c17_antisymmetric", "kind": "complete", "tier": "quick",
             "what": "partial_cmp(a,b) == reverse(partial_cmp(b,a)) for all pairs"},
            {"group": "g0", "name": "c17_translation_invariant", "kind": "complete", "tier": "quick",
             "what": "partial_cmp(a+n,b+n) == partial_cmp(a,b) for all a,b and all n <= 2^31-1"},
        ],
        "explanation": "Serial::add and Serial::partial_cmp (real text) carry the RFC 1982 spec functions as postconditions; "
                       "the four laws of the property are lemmas over those spec functions and exec wrappers over the contracts; "
                       "Kani re-proves the laws on the compiled code over the full u32 domains (loop-free, complete).",
        "not_covered": "Timestamp (rdata/dnssec.rs) and zonetree Version delegate to Serial; their delegation is covered by "
                       "Kani harnesses only where listed.",
    },
}
