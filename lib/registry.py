"""Which machinery decides which property.

Per property:
  level            category for MANIFEST/evidence ('proof' only where every counted obligation
                   is an unbounded Verus query or a K-complete harness)
  units            vx units (Verus on extracted text) -- always run in both tiers
  kani             list of harness dicts: group, name, kind ('complete'|'bounded'), bound (text),
                   tier ('quick'|'thorough'), what (text)
  explanation, not_covered, trusted (extra trusted-base lines)
"""

COMMON_TRUST = [
    "rustc, Verus 0.2026.09.13 + Z3, Kani 0.68 + CBMC 6.11 tool chains",
    "vxextract/vxlib edit list (DESIGN 3.1 and 0.1): DROP_ATTR, VIS, MONO, RENAME, PARAM_NAME, INSERT_SPEC, DESUGAR_*; every application is logged in coverage.extraction",
    "hand-written impl headers in unit.vrs replace the real impl headers (IMPL_HEADER rule)",
]

PROPS = {
    "C20": {
        "level": "proof",
        "level_prefix": "Partial proof -- contracts discharged without bound on the mechanisms named below, not the whole statement (what is left out is listed): ",
        "units": ["clientcache"],
        "kani": [],
        "extra_searches": [
            {"bin": "c20_search_cache", "crate": "replay_client", "release": True,
             "what": "the real cache::Connection under tokio's paused clock against a mock upstream: 2240 sequences of three queries (flag variants plain / RD=0 / AD=1 / DO=1, at times around the "
                     "bounds) for seven response shapes (answer, answer with RRSIG, answer with AD, NXDOMAIN, NODATA with the SOA first, NODATA with NS records ahead of the SOA, delegation): every TTL handed "
                     "out is the upstream's minus the whole seconds since some earlier fetch, nothing is served past its TTLs or the configured bound of its kind, no RRSIG / NSEC / NSEC3 record and no AD bit "
                     "for a query that did not ask (bounded exploration; harness after a round-11 seeding sub-agent's demonstration programs; it supplies the concrete sequence for seeds C20-1..3)"},
        ],
        "explanation": "The ageing and never-stale clauses, on the functions that implement them (net/client/cache.rs, real text). validity(): how long an upstream response may be served is never more than the configured "
                       "maximum, the bound configured for its kind (NXDOMAIN, other error codes, transport failures; a truncated response is not kept unless configured), nor the TTL of any record in its answer, "
                       "authority or additional section (OPT aside) -- three loops over the real section iterators' model, for messages of any size. A cache entry (Value::new, new_from_value_and_response) keeps that "
                       "duration as valid_for (representation invariant inv(): valid_for is zero or no TTL in the entry is shorter), and a response derived from a cached one keeps the creation time of the original. "
                       "Value::get_response serves nothing once more than valid_for has passed; otherwise it hands the stored response to decrement_ttl with the whole seconds spent in the cache, which by the invariant "
                       "is at most every TTL -- so the TTL subtraction, which panics on underflow, cannot (the cross-function invariant the design phase could not express: it is the precondition can_age of decrement_ttl, "
                       "discharged at the call in get_response from inv()). decrement_ttl (four loops): the message is rebuilt with the same header, the same records in the same sections and order, every TTL reduced "
                       "by exactly the amount (never increased), OPT records untouched (predicate aged). AdDo::{new, ad, dnssec_ok}: which flavour of cached answer a query may see. remove_dnssec / is_dnssec (real text, four loops): what a query without the DO bit is served has no RRSIG, NSEC or NSEC3 record in any "
                       "section, every other record in place and in order, and the AD bit only if the query had it.",
        "not_covered": "That the entry found belongs to the same question and compatible flags (Key, the moka cache, cache_lookup_rd_do_ad / _do_ad / _ad: async code over the cache), "
                       "the clock (Instant::elapsed is arbitrary here: any time may have passed), classify_no_error, the NODATA / delegation bounds (they depend on its classification: the contract states them for "
                       "NXDOMAIN and other error codes only), get_response_impl (the request state machine). Assumed and said so in the unit: pushing a record into the rebuilt message succeeds -- that re-encoding with "
                       "StaticCompressor cannot push a message the upstream sent past 65 535 octets and trip expect(\"push failed\") is NOT proved (an observation, see DESIGN.md); the rebuilt message reads back as what "
                       "was pushed (C02).",
        "assumptions": [
            "core::time::Duration is a number of nanoseconds below 2^64; tokio/std Instant::elapsed may return anything",
            "Message, its section iterators (C01: unit sections has the real ones), the message builder stages and AllRecordData are prelude models; into_record::<AllRecordData>() yields Some for every record type",
            "MessageBuilder push succeeds (not proved: size after re-compression); the built message parses back to what was pushed (C02)",
        ],
    },
    "C17": {
        "level": "proof",
        "units": ["serial"],
        "kani": [
            {"group": "g0", "name": "c17_partial_cmp_matches_rfc1982", "kind": "complete", "tier": "quick",
             "what": "Serial::partial_cmp == RFC 1982 section 3.2 on all 2^64 pairs (compiled code)"},
            {"group": "g0", "name": "c17_add_strictly_greater", "kind": "complete", "tier": "quick",
             "what": "Serial::add(n) for all a and all 1 <= n <= 2^31-1 is (a+n) mod 2^32 and compares Greater"},
            {"group": "g0", "name": "c17_antisymmetric", "kind": "complete", "tier": "quick",
             "what": "partial_cmp(a,b) == reverse(partial_cmp(b,a)) for all pairs"},
            {"group": "g0", "name": "c17_translation_invariant", "kind": "complete", "tier": "quick",
             "what": "partial_cmp(a+n,b+n) == partial_cmp(a,b) for all a,b and all n <= 2^31-1"},
            {"group": "g0", "name": "c17_timestamp_cmp_is_serial_cmp", "kind": "complete", "tier": "quick",
             "what": "rdata::dnssec::Timestamp::partial_cmp == Serial::partial_cmp == RFC 1982 on all 2^64 pairs"},
        ],
        "incrate_native": [
            {"test": "dnssec::validator::group::verif_native::d56_validity_window_across_wrap", "kind": "replay", "finding": "D56",
             "file": "native/incrate/validator_group.rs",
             "what": "Group::check_sig / check_sig_cached under the crate's test clock set to 2^32 - 50 s: a signature whose validity period "
                     "crosses the wrap of the 32-bit time is accepted while the clock is inside it; an expired and a not yet valid one are refused"},
        ],
        "explanation": "Timestamp::{partial_cmp, canonical_cmp, into_int} (rdata/dnssec.rs) are proved to delegate to Serial. Serial::add and Serial::partial_cmp (real text) carry the RFC 1982 spec functions as postconditions; "
                       "the four laws of the property are lemmas over those spec functions and exec wrappers over the contracts; "
                       "Kani re-proves the laws on the compiled code over the full u32 domains (loop-free, complete).",
        "not_covered": "zonetree Version (feature unstable-zonetree) delegates to Serial; that delegation is not under contract here "
                       "(see C09). SOA serial comparisons in xfr/zonetree call Serial::partial_cmp (callers not under contract). Which comparison a caller "
                       "uses is not under contract either: the validator compared its clock with signature times as plain numbers (D56, fixed; guarded by an "
                       "in-crate replay under the crate's test clock).",
    },
    "C18": {
        "level": "proof",
        "units": ["base64", "base32", "base16", "iterscan"],
        "kani": (
            [{"group": "g0", "name": f"c18_b64_display_len{n}", "kind": "complete", "tier": "quick",
              "what": f"base64::display of every {n}-octet chunk equals the RFC 4648 section 4 encoding (arithmetic spec)"} for n in (1, 2, 3)]
            + [{"group": "g0", "name": f"c18_b32_display_len{n}", "kind": "complete", "tier": "quick",
                "what": f"base32::display_hex of every {n}-octet chunk equals the RFC 4648 section 7 encoding without padding"} for n in (1, 2, 3, 4, 5)]
            + [{"group": "g0", "name": "c18_b16_display_len1", "kind": "complete", "tier": "quick",
                "what": "base16::display of every octet equals the RFC 4648 section 8 encoding"},
               {"group": "g0", "name": "c18_char_to_digit16_matches_rfc", "kind": "complete", "tier": "quick",
                "what": "core's char::to_digit(16) (assumed in units/base16) equals the RFC 4648 Base16 value function for every char"},
               {"group": "g0", "name": "c18_b16_roundtrip_len1", "kind": "complete", "tier": "quick",
                "what": "compiled base16 Decoder inverts display for every octet"}]
            + [{"group": "g0", "name": f"c18_b64_roundtrip_len{n}", "kind": "complete", "tier": "quick",
                "what": f"compiled base64 Decoder inverts display on every {n}-octet chunk"} for n in (1, 2, 3)]
            + [{"group": "g0", "name": f"c18_b32_roundtrip_len{n}", "kind": "complete", "tier": "thorough", "timeout": 900,
                "what": f"compiled base32 Decoder inverts display_hex on every {n}-octet chunk"} for n in (1, 2, 3, 4, 5)]
            + [{"group": "g0", "name": "c18_b64_display_len5_bounded", "kind": "bounded", "bound": "5 octets (chunks 3+2)", "tier": "quick",
                "what": "composition of base64::display over two chunks"},
               {"group": "g0", "name": "c18_b32_display_len6_bounded", "kind": "bounded", "bound": "6 octets (chunks 5+1)", "tier": "quick",
                "what": "composition of base32::display_hex over two chunks"},
               {"group": "g0", "name": "c18_b16_display_len2_bounded", "kind": "bounded", "bound": "2 octets", "tier": "quick",
                "what": "composition of base16::display over two octets"}]
        ),
        "replays": [
            {"bin": "d63_iterscanner_bad_escape", "finding": "D63", "expect": "fail"},
        ],
        "explanation": "Decoder::{push, finalize} of base64, base32 (extended hex) and base16 and their helpers (real text) are proved "
                       "to implement one step / the end of the RFC 4648 state machines (b64_step, b32_step, b16_step; alphabet tables "
                       "proved equal to the RFC tables), with the representation invariant preserved on every exit, so no index or "
                       "unwrap can panic for any call sequence on a growable target. Lemmas over those contracts: decode(encode(x)) == x "
                       "for every octet string (induction over groups), splitting the text anywhere gives the same state "
                       "(run_concat), Base16 accepts exactly even-length hex text. The encoders use slice::chunks and fmt::Write "
                       "(outside Verus): Kani proves display* == the same RFC arithmetic per chunk length over all octet values.",
        "not_covered": "Multi-chunk encoder output beyond the bounded harnesses rests on slice::chunks composing per chunk (assumed). "
                       "The scanner-side converters are under contract in all three units: SymbolConverter::{process_char, process_tail, process_symbol} of base64 and base32 and SymbolConverter::{process_symbol, process_tail} of base16 (real text; the same state machines as the Decoders, one step per symbol on the character the symbol stands for, a symbol that stands for no character refused, an end-of-token symbol changing nothing); Symbol::into_char itself is a model (which character a symbol stands for: C06 / C07). How the text reaches a converter is under contract for IterScanner (unit iterscan: convert_token / convert_entry feed the symbols in order and call process_tail once, last) and not for the zone-file EntryScanner (its convert_entry rewrites the buffer in place: C07). Standard-alphabet Base32 is not implemented by the "
                       "library. Fixed-capacity targets that refuse to grow (ShortBuf) are outside the contracts (D13). "
                       "Non-canonical trailing bits are accepted by the decoders (RFC 4648 section 3.5 permits either). Open finding D63: IterScanner::convert_token / convert_entry never ask Symbols::ok(), so a malformed escape silently ends the token (in unit iterscan the symbols of a token are a model: the unit proves the converter protocol, not the tokenization).",
        "assumptions": [
            "decode()/decode_hex() iterate a &str (outside Verus' subset): their 4-line loops are represented by caller_model_* functions over the push/finalize contracts",
            "octseq OctetsBuilder/FreezeBuilder/EmptyBuilder are modelled by prelude traits (append_slice appends or fails leaving the content unchanged)",
        ],
    },
    "C01": {
        "level": "proof",
        "units": ["nameparse", "labeliter", "sections", "optiter", "txtdata", "svcparams", "wirehdr", "rtypebitmap", "keytag"],
        "vx_search": {"bin": "c01_search_small_names", "crate": "replay", "release": True,
                      "what": "16.4 million (octet string of at most 7 octets over 8 parser-relevant octets, offset) pairs and 3 million small messages (section counts 0..=2, body of at most 5 octets) walked twice: ParsedName::parse, "
                              "label iteration both ways, flattening, as_flat_slice, compose_len, equality and Label::iter_slice on the real "
                              "crate under a 10 s progress watchdog -- run only to find a concrete input for a failed Verus obligation"},
        "kani": [
            {"group": "g0", "name": "c01_header_getters_total", "kind": "complete", "tier": "quick",
             "what": "Message::from_slice + every Header/HeaderCounts/HeaderSection getter on every 12-octet header: no panic, "
                     "pointer casts in-bounds (CBMC pointer checks), values equal the big-endian fields"},
            {"group": "g0", "name": "c01_short_message_rejected", "kind": "complete", "tier": "quick",
             "what": "Message::from_slice accepts exactly slices of >= 12 octets (lengths 0..=12, all contents)"},
            {"group": "g0", "name": "c01_client_subnet_parse_total_bounded", "kind": "bounded", "tier": "quick", "timeout": 900,
             "bound": "option payloads of at most 24 octets, all contents (longer payloads are refused on every path: at most 16 address octets, then nothing may remain)",
             "what": "ClientSubnet::parse (EDNS client subnet, RFC 7871): no panic; a value only for family 1 / 2 with a source prefix that fits the family, "
                     "exactly ceil(prefix / 8) address octets and no bit beyond the prefix; the value composes back to the payload"},
        ],
        "replays": [
            {"bin": "d34_txt_parse_empty_rdata", "finding": "D34"},
            {"bin": "d43_iter_slice_pointer_cycle", "finding": "D43"},
            {"bin": "d1_iter_slice_self_pointer", "finding": "D1"},
            {"bin": "d2_canonical_name_ancount", "finding": "D2"},
        ],
        "explanation": "The functions every read-side path funnels through are under contract on their real text: octseq Parser "
                       "(14 methods, registry source), Label::{split_from, from_slice, len, ...}, LabelType::{parse, peek}, "
                       "ParsedName::parse_ref (terminates for every octet string by a lexicographic measure, never reads outside "
                       "[0, parser.len), Ok ==> name_wf: the recursive RFC 1035 walk predicate with strictly backward pointers and "
                       "uncompressed length <= 255), ParsedName::skip (accepts exactly the label sequences of at most 255 octets ending in the root label or a pointer, stops right behind that, and is no stricter than parse_ref: lemma_skip_accepts_parsed_names -- the iterators and the dig-style printer skip what was parsed before), ParsedName::{parser, iter, parent, as_flat_slice}, the *unchecked* "
                       "ParsedNameIter::{get_label, next, next_back} (panic!(\"bad label\"), index and `len -= ..` underflow "
                       "unreachable under the validity parse_ref establishes; validity preserved, so results can be iterated again), "
                       "SliceLabelsIter::next (total on every slice and offset, and the iteration as a whole is finite: every label handed out "
                       "ends the iteration or strictly decreases the pair (offset pointers must stay below, octets left)). Unit `sections`: QuestionSection::{next, answer}, "
                       "RecordSection::{new, next, skip_next, next_section}, ParsedRecord::{new, parse, skip}, RecordHeader::{new, rdlen, "
                       "parse_ref, parse_rdlen}, Section::{first, count, next_section}: the parser never moves backwards or out of the "
                       "message, a record's RDATA window lies inside the message, each iterator yields at most `count` items and "
                       "nothing after its first error (fuse), and the skip loops terminate; Message::{question, answer, authority, additional, "
                       "sections, header_counts, header, is_answer} and QuestionSection::{new, next_section, ==} on every message view of at least 12 octets: "
                       "their unwrap()s cannot fail (a record section other than the additional one always has a successor). Unit `optiter` (base/opt/mod.rs): "
                       "Opt::check_slice accepts exactly the well-framed option sequences of at most 65535 octets; "
                       "OptIter::{new, next_step, next}: total for every option type, a step consumes exactly one whole option "
                       "(header plus announced length, which must fit), the iterator terminates, stays on option boundaries of "
                       "checked data and is exhausted for good after its first error. Unit `svcparams` (rdata/svcb/params.rs): "
                       "SvcParams::check_slice accepts exactly the well-framed parameter sequences with strictly ascending keys; "
                       "ValueIter::{new, next_step, next} with the same guarantees as the option iterator; the value types whose "
                       "iterators `expect` well-formed data (rdata/svcb/value.rs): Alpn, Mandatory, Ipv4Hint, Ipv6Hint -- check_slice "
                       "accepts exactly the length-prefixed id lists / multiples of the element size, and on such data the "
                       "iterators' expect()s are unreachable and the iteration stays on element boundaries. Unit `txtdata`: "
                       "Txt::check_slice accepts exactly the non-empty sequences of character strings, Txt::parse yields character "
                       "strings (possibly none), CharStr::skip, and as_flat_slice is total on all of them. MessageIter::next (Message::iter(), real text, unit sections): "
                       "one call terminates (it moves on by at most the three record sections), an exhausted iterator stays exhausted, and the iteration as a whole "
                       "is finite also over a message that fails to parse: every item, record or error, strictly decreases the pair (sections still to come, "
                       "records the current section may still yield). Dnskey::key_tag (unit keytag, evaluated by every display of a DNSKEY record): total for keys "
                       "of every length, RSA/MD5 keys of fewer than three octets included. Kani covers the unsafe header casts.",
        "not_covered": "RecordIter/AnyRecordIter and into_record (typed RDATA parsers for all types), the individual OPT option "
                       "parsers (parse_option of each option type is a trait contract here), OptRecord accessors (those of Header, HeaderCounts, OptHeader and OptRcode are under contract in unit wirehdr), "
                       "Message::canonical_name (CBMC does not terminate on it; typed record iterators: not under contract -- D2 is guarded by its replay; Message::is_answer and RequestMessage::is_answer are under contract in unit sections), dig-style and "
                       "zone-style Display (core::fmt), ParsedName::split_first (Octets::range), 'traversed twice yields the same "
                       "result' (follows from purity over an immutable slice; not stated as an obligation).",
        "assumptions": [
            "AsRefOctets models the bound AsRef<[u8]>: an octets value has one fixed content returned by every as_ref() call",
            "error values are modelled by reduced enums (ParseError, FormError, ParsedDnameError); `?` conversions are opaque",
            "octseq Parser::parse_u16_be (from_be_bytes: no Verus specification): Ok iff two octets remain, value is the big-endian pair, position +2",
            "ParseOptData::parse_option (every option type): only moves its own sub-parser forward",
        ],
    },
    "C03": {
        "level": "proof",
        "units": ["namecheck", "namebuilder", "nameparse", "zfsource"],
        "extra_searches": [
            {"bin": "c07_search_layouts", "crate": "replay_net", "release": True,
             "what": "names from the zone-file scanner (shared with C07): labels of 63 / 64 / 65 octets written plainly, with a decimal or a character "
                     "escape, first or behind a label that contains an escape, are accepted exactly up to 63 octets and come back with their full "
                     "length -- on the real crate"},
        ],
        "vx_search": {"bin": "c03_search_builder_sequences", "crate": "replay", "release": True,
                      "what": "all octet strings of at most 6 octets over {0,1,2,63,64,'a'} through Name/RelativeName::from_slice against a "
                              "reference checker, and all NameBuilder operation sequences of at most 5 steps over sizes that reach the "
                              "63/254/255 limits (the open finding D5 is not judged); 735 valid relative names (all label layouts of at most 5 "
                              "octets, labels whose content looks like the wire form of another name) and their absolute forms through truncate, "
                              "split, range, slice, slice_from, range_from, is_label_start at every index, split_first, strip_suffix / ends_with "
                              "against every other such name, chain, into_absolute / into_relative -- against reference functions, on the real crate"},
        "kani": [
            {"group": "g0", "name": "c06_symbol_from_chars_all_inputs", "kind": "complete", "tier": "quick",
             "what": "Symbol::from_chars (the reader behind FromStr of names and IterScanner) reads four characters at most: over four symbolic characters "
                     "and a symbolic length it agrees with RFC 1035 5.1 written out independently (plain character; \\DDD is the octet DDD exactly when DDD <= 255; "
                     "\\X for printable non-digit X; otherwise an error; None on the empty source) and consumes exactly the characters of the symbol"},
            {"group": "g0", "name": "c06_label_octet_display_roundtrip", "kind": "complete", "tier": "quick", "timeout": 400,
             "what": "'converting a name to presentation text and back yields an equal name', per octet: for every octet as a "
                     "one-octet label, Display for Label -> the reader's symbol decoder yields the octet back; no unescaped dot "
                     "(label boundary) and no unescaped character that ends a word (shared with C06)"},
        ],
        "replays": [
            {"bin": "d32_zonefile_empty_label", "crate": "replay_net", "finding": "D32"},
            {"bin": "d5a_push_at_253", "finding": "D5a"},
            {"bin": "d6_append_slice_open_label", "finding": "D6"},
            {"bin": "d15_append_name_open_label", "finding": "D15"},
            {"bin": "d5_append_label_at_limit", "finding": "D5", "expect": "fail"},
            {"bin": "d49_chain_relative_255", "finding": "D49", "expect": "fail"},
            {"bin": "d50_uncertain_from_octets_long_relative", "finding": "D50"},
        ],
        "explanation": "Name::check_slice / RelativeName::check_slice accept exactly abs_name / rel_name of at most 255 / 254 octets "
                       "(recursive RFC 1035 predicates), from_slice returns a value only then; the unchecked constructors carry their "
                       "safety contract as an explicit precondition that every extracted caller proves. NameBuilder::{push, "
                       "append_slice, end_label, append_label, append_dec_u8_label, finish, into_name} preserve the representation "
                       "invariant nb_wf (closed labels form a relative name, open label 1..=63 octets, total <= 254), every error "
                       "leaves octets and open-label state unchanged, finish() yields a valid RelativeName and into_name() a valid "
                       "Name (lemmas rel_snoc_label, rel_plus_root_is_abs). ParsedName validity: see C01 (nameparse). Slicing and truncation "
                       "(unit namecheck, real text): Name::{is_label_start, check_index, slice_from, split, range_from} and "
                       "RelativeName::{is_label_start, check_index, split, truncate, strip_suffix}, Name::{truncate, strip_suffix}: a position is accepted exactly when it "
                       "is the start of a label (or the end of a relative name), the documented panic otherwise; the parts handed out are "
                       "valid names holding exactly the octets before / behind the position; strip_suffix succeeds exactly when the base is a "
                       "label-wise suffix, cuts off exactly its octets and leaves a valid name, and leaves the name alone when it refuses. "
                       "UncertainName::is_slice_absolute (the check behind UncertainName::from_octets) accepts exactly the valid absolute names "
                       "of at most 255 octets and the valid non-empty relative names of at most 254 (this contract exposed D50).",
        "not_covered": "Presentation-text round trip (Display/FromStr: core::fmt and char iterators), append_symbols / append_chars (symbol iterators; append_name and append_origin are under contract over a modelled label iterator: "
                       "the open label is closed first, the result is a valid relative / absolute name or LongName exactly past 254 / 255 octets), Chain beyond its length check, UncertainName beyond is_slice_absolute, slice/range with general RangeBounds (searched natively only; split, truncate and strip_suffix of Name / RelativeName are under contract), "
                       "the text parsers of Name / RelativeName (FromStr, from_chars). The zone-file reader's name conversion is under contract in unit zfsource (C07: scan_name hands out valid names only). Builders that refuse to grow (ShortBuf) are outside the contracts (D13).",
        "assumptions": [
            "OctetsBuilder + AsRef<[u8]> + AsMut<[u8]> are modelled by one prelude trait (append_slice appends or fails unchanged; as_mut keeps the length)",
        ],
    },
    "C02": {
        "level": "proof",
        "level_prefix": "Partial proof -- contracts discharged without bound on the mechanisms named below, not the whole statement (bounded stand-ins and what is left out are listed): ",
        "units": ["compressors", "msgbuilder", "msgsections", "wirehdr", "starterr", "streamtarget", "rdnames", "rdcompose", "rdbin", "charstr"],
        "extra_searches": [
            {"bin": "c02_search_stream_limit", "crate": "replay", "release": True,
             "what": "messages over StreamTarget<Vec<u8>> (alone and under each compressor) filled so that the last push lands on every length from 65530 to 65540 octets: a push within 65535 succeeds, "
                     "one past it fails and leaves message and prefix as they were, the prefix equals the message length after every step, and the message parses back to the records pushed (44 messages)"},
        ],
        "vx_search": {"bin": "c02_search_builder_sequences", "crate": "replay", "release": True,
                      "what": "22621 sequences of at most 4 answer pushes (three owner names sharing suffixes; unrestricted or under a push limit "
                              "that makes the push fail after 1, 5 or 12 octets) x {no compressor, Static-, Tree-, HashCompressor}: the message "
                              "reads back as exactly the successful pushes, a failed push leaves the octets alone; and every ordered triple out of 16 names "
                              "chosen for their shape (a label run that repeats at once or with period two, label-wise prefixes and suffixes of one "
                              "another, other letter case, one label, the root, 63-octet labels) as owners and exchanges of MX records: the message "
                              "parses and gives the names back under every compressor -- on the real crate"},
        "kani": [
            {"group": "g0", "name": "c02_header_counts_inc_total", "kind": "complete", "tier": "quick",
             "what": "HeaderCounts::inc_{qd,an,ns,ar}count on every 12-octet header: exact increment, CountOverflow exactly at 0xFFFF, "
                     "all other counts and the first four header octets unchanged"},
            {"group": "g0", "name": "c02_wire_header_u16_fields", "kind": "complete", "tier": "quick",
             "what": "the two-octet fields of Header (ID), HeaderCounts (all eight accessors and setters) and OptHeader (UDP payload size) "
                     "as compiled (from_be_bytes(..try_into().unwrap()) / copy_from_slice(&to_be_bytes()), which unit wirehdr substitutes): "
                     "getters read the big-endian pair at the RFC position, setters write exactly that pair; every 21-octet content, every value"},
            {"group": "g0", "name": "c02_stream_target_length_limit", "kind": "complete", "tier": "quick",
             "what": "StreamTarget::append_slice over a target whose length jumps by a symbolic amount: refused exactly when the message "
                     "would exceed 65535 octets, prefix == message length after every accepted append, for every length up to 65590"},
            {"group": "g0", "name": "c02_stream_target_prefix_bounded", "kind": "bounded", "tier": "quick",
             "bound": "StreamTarget<Array<12>>, three operations (append <= 6 octets, truncate, append <= 6 octets), all contents",
             "what": "after every append_slice/truncate the two-octet prefix equals the message length; a refused append leaves the message unchanged"},
            {"group": "g0", "name": "c02_failed_push_leaves_message_unchanged_bounded", "kind": "bounded", "tier": "thorough", "timeout": 900,
             "bound": "MessageBuilder<Array<40>>, one fixed question pushed twice, symbolic push limit <= 48",
             "what": "a push that fails (space or limit) leaves octets and all four counts unchanged; a successful one adds exactly one to one count and stays below the limit"},
        ],
        "replays": [
            {"bin": "d39_optbuilder_push_no_rollback", "finding": "D39"},
            {"bin": "d4_compress_pointer_beyond_3fff", "finding": "D4"},
            {"bin": "d57_set_opcode_wide_value", "finding": "D57"},
        ],
        "explanation": "The RDLENGTH a non-compressing target writes is rdlen() of the record data: the units of C05 that prove rdlen() == number of octets compose_rdata() appends (rdnames, rdcompose, rdbin, charstr) also run here (seed C02-16: MINFO rdlen counting one mailbox twice). Unit streamtarget (real text of StreamTarget::{update_shim, append_slice, truncate, as_stream_slice, as_dgram_slice}; only `len.to_be_bytes()` is substituted, the mutable range slice and copy_from_slice are the real text): update_shim succeeds exactly when the message behind the two prefix octets is at most 65535 octets long and then writes that length, big-endian, into the prefix, touching nothing else; after a successful append or truncate the prefix is the message length. Unit wirehdr (unbounded): every accessor of Header, HeaderCounts, OptHeader and OptRcode against the bit positions of "
                       "RFC 1035 4.1.1 / RFC 6891 6.1.3 -- a getter reads exactly its field, a setter changes exactly its field to the value given "
                       "(the whole octet array after the call is stated), set_flags leaves ID/opcode/Z/rcode alone, inc_*count refuses exactly at "
                       "65535 and changes nothing then, the two halves of an extended rcode reassemble (lemma_opt_rcode_parts). Then: " +
                        "bounded contract checking plus unbounded contracts on the compressor position tables. Verus (unbounded): "
                       "StaticCompressor::insert remembers a position only if it is below 0x4000 (so `pos | 0xC000` is a faithful "
                       "RFC 1035 4.1.4 pointer: lemma_pointer_faithful), keeps the table sorted and in range; Truncate for "
                       "StaticCompressor forgets exactly the entries at or behind the cut; HashEntry::new accepts a head position "
                       "iff it is below 0x4000. MessageBuilder::push (the function every question/record/OPT push goes through; real text, closure "
                       "parameters under contract): whatever the composing closure appended and whichever of the three failures "
                       "occurs (target full, push limit reached, count overflow), an Err leaves the target octets -- header counts "
                       "included -- exactly as they were; an Ok leaves the message strictly below the push limit with everything "
                       "outside the counters extended only by what was appended. The public entry points QuestionBuilder::push, "
                       "AnswerBuilder::push, AuthorityBuilder::push and AdditionalBuilder::push (real text, closures annotated in place) "
                       "are checked against that contract: the closures they pass only append / leave the counts alone on overflow, so "
                       "each of them is all-or-nothing for every question or record type; OptBuilder::push_raw_option rolls back a "
                       "failed option. Section changes and rewinds (unit msgsections, real text of rewind(), builder(), question(), answer(), "
                       "authority(), additional() and new() of the message builder and the four section builders, 31 functions): going back "
                       "cuts the message to exactly where the later section(s) began and resets exactly their counters to zero -- octets before "
                       "that point and the counters of earlier sections untouched (lemma_cut_meaning) --, going forward changes no octet and "
                       "starts the new section at the current end. Kani: HeaderCounts increments complete over all headers; StreamTarget prefix and "
                       "all-or-nothing push are bounded harnesses (bounds stated). Native replay of D4 for all three compressors.",
        "not_covered": "The sequence-level round trip (arbitrary pushes parse back to the same items) is not under contract: a CBMC "
                       "harness for it does not terminate, MessageBuilder::push takes FnOnce(&mut Target) closures (outside Verus), "
                       "StreamTarget::update_shim uses u16::to_be_bytes/copy_from_slice on a sub-slice (no Verus spec possible: "
                       "assume_specification cannot name the const-generic return type). TreeCompressor::insert/get and "
                       "HashCompressor (hash maps, label iterators) are covered only by the native D4 replay. BytesMut/heapless targets.",
        "assumptions": [
            "octseq Truncate is modelled by a prelude trait (truncate keeps the first len octets)",
            "MessageBuilder::push: the composing closure only appends to the target; the counting closure leaves the counts unchanged when it fails (HeaderCounts::inc_*: Kani c02_header_counts_inc_total); counts_mut() is the octets 4..12 window of the target (pointer cast, CBMC-checked)",
            "ComposeQuestion::compose_question / ComposeRecord::compose_record (trait contracts for every implementor): composing only appends to the target",
        ],
    },
    "C04": {
        "level": "proof",
        "level_prefix": "Partial proof -- contracts discharged without bound on the mechanisms named below, not the whole statement (bounded stand-ins and what is left out are listed): ",
        "units": ["nameorder", "nsec3order", "rdbin", "rdnames", "namehash", "charstr", "nameparse"],
        "vx_search": {"bin": "c04_search_small_values", "crate": "replay", "release": True,
                      "what": "about 15000 pairs/triples of small names (57 names of up to two labels over a,A,b,[,NUL,ab,aB) and of small "
                              "Nsec, Nsec3, Nsec3param, Rrsig, Dnskey, Ds, Zonemd, Svcb, Mx, Srv and unknown record data values, checked "
                              "on the real crate for the laws of the property -- run only to find a concrete pair for a failed Verus obligation"},
        "kani": [
            {"group": "g0", "name": "c04_label_order_eq_hash_len8_bounded", "kind": "bounded", "tier": "quick", "timeout": 300,
             "bound": "two labels of at most 8 octets, all contents",
             "what": "Label: cmp == RFC 4034 6.1 order on lower-cased octets; == <=> cmp Equal; partial_cmp == Some(cmp); antisymmetry; "
                     "equal labels write the same bytes to any Hasher; composed_cmp/lowercase_composed_cmp == order of [len]++octets"},
            {"group": "g0", "name": "c04_label_order_eq_hash_len63", "kind": "complete", "tier": "thorough", "timeout": 3000,
             "what": "the same for two labels of any length up to the type's 63-octet limit (complete for Label); this discharges the "
                     "contract unit nameorder assumes for Ord for Label"},
            {"group": "g0", "name": "c04_label_order_transitive_bounded", "kind": "bounded", "tier": "quick",
             "bound": "three labels of at most 4 octets", "what": "transitivity of <= and of == on labels"},
            {"group": "g0", "name": "c04_name_eq_fixed_layout_bounded", "kind": "bounded", "tier": "quick",
             "bound": "two flat names with the fixed label layout 1+2 content octets and the root label; all content octets",
             "what": "Name: name_eq and == on the compiled code (flat-slice fast path) equal label-wise equality up to ASCII case -- "
                     "the compiled counterpart of unit nameorder's name_eq contract, independent of how the comparison is written"},
            {"group": "g0", "name": "c04_name_eq_implies_hash_eq_fixed_layout_bounded", "kind": "bounded", "tier": "thorough", "timeout": 900,
             "bound": "two flat names with the fixed label layout 1+2 content octets and the root label; all content octets",
             "what": "Name: names that compare equal write the same octets to any Hasher (Hash for Name walks the labels)"},
            {"group": "g0", "name": "c04_name_composed_cmp_fixed_layout_bounded", "kind": "bounded", "tier": "thorough", "timeout": 900,
             "bound": "two flat names with the fixed label layout 1+2 content octets and the root label; all content octets",
             "what": "Name: composed_cmp == octet order of the wire forms, lowercase_composed_cmp == octet order of the lower-cased "
                     "wire forms, on the compiled code (counterpart of unit nameorder, independent of fast paths and adapters)"},
            {"group": "g0", "name": "c04_charstr_order_eq_hash_len6_bounded", "kind": "bounded", "tier": "quick",
             "bound": "two character strings of at most 6 octets, all contents",
             "what": "CharStr: == is equality up to ASCII case; cmp/partial_cmp == order of the lower-cased octets, Equal exactly on "
                     "equal values; equal strings write the same bytes to any Hasher; canonical_cmp == octet order of the wire form "
                     "(length octet, octets as they are)"},
            {"group": "g0", "name": "c04_record_eq_implies_hash_eq", "kind": "complete", "tier": "quick",
             "what": "Record<u8, A>: == <=> (class, data) equal, for all classes, TTL pairs and addresses; equal records write the same "
                     "bytes to any Hasher (the generic Hash impl does not look into the owner type)"},
        ],
        "replays": [
            {"bin": "d7_record_hash_ttl", "finding": "D7"},
            {"bin": "d18_nsec_order_ignores_types", "finding": "D18"},
            {"bin": "d19_nsec3_partial_ord_vs_ord", "finding": "D19"},
            {"bin": "d20_rrsig_partial_ord_vs_ord", "finding": "D20"},
            {"bin": "d21_svcb_canonical_order", "finding": "D21"},
            {"bin": "d22_ipseckey_canonical_order", "finding": "D22"},
            {"bin": "d23_ipseckey_hash_no_gateway", "finding": "D23"},
            {"bin": "d24_zonemd_partial_ord_vs_ord", "finding": "D24"},
            {"bin": "d25_unknown_rdata_eq_ignores_type", "finding": "D25"},
            {"bin": "d26_allrecorddata_eq_not_reflexive", "finding": "D26"},
            {"bin": "d27_zonerecorddata_cross_variant_order", "finding": "D27", "expect": "fail"},
        ],
        "explanation": "Independence of representation for names inside messages rests on what ParsedName::parse_ref records about a name: unit nameparse (C01/C03: the `compressed` flag is cleared only for names whose octets are flat, which is what as_flat_slice -- and through it name_eq, compose and the hash -- trusts) also runs here (seed C04-11). Names (Verus unit nameorder, real text of the provided methods of ToName in base/name/traits.rs, for every "
                       "implementor, i.e. every representation -- flat, compressed ParsedName, chain): name_eq == label-wise equality "
                       "up to ASCII case on both of its paths (lemma: comparing flat wire forms octet by octet up to case decides "
                       "exactly that, because length octets are below the letters); name_cmp == the RFC 4034 section 6.1 order "
                       "(most significant label first, labels as lower-cased left-justified octet strings); composed_cmp == "
                       "octet-wise order of the uncompressed wire forms and lowercase_composed_cmp == octet-wise order of the "
                       "canonical wire forms, with their unreachable!() arms proved unreachable for absolute names; "
                       "Label::composed_cmp / lowercase_composed_cmp (real text) == octet-wise order of the label's wire form. "
                       "NSEC record data (rdata/dnssec.rs, real text of the PartialEq/PartialOrd/Ord/CanonicalOrd impls of Nsec and "
                       "RtypeBitmap): == is (next names equal up to case, bitmaps identical), cmp/partial_cmp order by next name then "
                       "bitmap and are Equal exactly on equal values, canonical_cmp == octet-wise order of the canonical RDATA "
                       "(lemma: wire-form names are prefix-free). NSEC3 and NSEC3PARAM (unit nsec3order, rdata/nsec3.rs, real text of "
                       "the impls of Nsec3, Nsec3param, Nsec3Salt, OwnerHash): == is field-wise equality; canonical_cmp == octet-wise "
                       "order of the canonical RDATA (algorithm, flags, big-endian iterations, length-prefixed salt and hash, "
                       "bitmap); PartialOrd for Nsec3 agrees with Ord (partial_cmp == Some(cmp)); Ord for Nsec3param is the "
                       "field order with the salt as a plain octet string. RRSIG (unit nameorder, real text of the impls of Rrsig): "
                       "== is field-wise with the signer compared as a name; canonical_cmp and cmp are the field order with the signer "
                       "name by its canonical wire form and the signature as octets; partial_cmp == Some(cmp). Whole records "
                       "(base/record.rs, real text): Record::canonical_cmp orders by class, then owner name (RFC 4034 6.1 order), "
                       "then type, then the canonical RDATA order of the data type. SVCB/HTTPS (rdata/svcb, real text): "
                       "SvcbRdata::canonical_cmp == octet-wise order of the canonical RDATA (priority, target name as it is, "
                       "parameters). ZONEMD and record data of unknown type (unit nsec3order): Zonemd cmp/canonical_cmp are the "
                       "field order with the serial as a number and partial_cmp == Some(cmp); UnknownRecordData == is (type, octets), "
                       "cmp/partial_cmp order by type then octets and are Equal exactly on equal values, canonical_cmp is the "
                       "octet order of the RDATA. DNSKEY and DS (real text of the impls of Dnskey and Ds): canonical_cmp == octet order "
                       "of the RDATA (16-bit big-endian head, two octets, key or digest), cmp and partial_cmp agree with it, Dnskey == "
                       "is field-wise. TLSA, SSHFP and OPENPGPKEY (unit rdbin, real text of the PartialEq/PartialOrd/Ord/CanonicalOrd impls): "
                       "== holds exactly for values with the same RDATA, canonical_cmp, cmp and partial_cmp are the octet order of the RDATA "
                       "(lemmas: the field-by-field order is the octet order of the concatenation); ZONEMD == likewise. MX, SRV, SOA, RP and MINFO (unit "
                       "rdnames, real text of the impls): == is field-wise with the embedded names compared up to case; cmp and partial_cmp "
                       "agree and order by the fields with names in the RFC 4034 6.1 order; canonical_cmp == octet order of the canonical "
                       "RDATA (integers big-endian, names lower-cased in wire form; for SOA this needs that wire-form names are prefix-free: "
                       "lemma_abs_concat). "
                       "CAA (unit charstr, real text of the impls of Caa, CaaTag, CaaFlags): == is (flags, tag up to ASCII case, value), partial_cmp and cmp order by those fields and are Equal exactly on == values, canonical_cmp == octet order of the RDATA (RFC 4034 6.3: nothing in a CAA record is case-folded). Hashing (unit namehash, real text of Hash for Label, Name, RelativeName and ParsedName, names of every length, any "
                       "hasher): what reaches the hasher is the label's length octet and its octets lower-cased, label after label -- exactly the "
                       "canonical wire form of the name; lemma_equal_names_hash_alike: names that are equal (label-wise up to case) feed any hasher "
                       "the same octets, across representations. "
                       "Laws proved over the reference definitions the code is tied to: the name order is antisymmetric, "
                       "transitive, and Equal exactly on names that are name_eq (so order, equality and representation cannot "
                       "disagree). Labels, records (Kani on the compiled generic code, whose comparison code is written with "
                       "iterator adapters outside Verus): label order, equality and hash coherence and the RFC 4034 label order, "
                       "complete up to the 63-octet limit in the thorough tier; Record Eq/Hash coherence over all classes, TTLs "
                       "and A data.",
        "not_covered": ""
                       "The iterators themselves (iter_labels/as_flat_slice of Name, ParsedName, Chain are assumed "
                       "to enumerate labels() -- ParsedName's iterator is under contract in C01's unit nameparse), CharStr's PartialOrd / Ord / Hash (iterator adapters: assumed in unit charstr, bounded Kani harness on the "
                       "compiled code; its ==, canonical_cmp, 255-octet invariant, parse and compose are under contract, as is HINFO), canonical "
                       "ordering of record data of the other types versus canonical wire form (macro-generated per type), Eq/Ord/Hash of Record beyond "
                       "the Kani harness (generic operator calls), Hash of Question (delegates to the name's Hash: unit namehash). "
                       "ToRelativeName::{name_eq, name_cmp} and Question's ==, partial_cmp, cmp and canonical_cmp (real text, unit nameorder: name "
                       "first, then type, then class; == exactly when the order says Equal) are under contract.",
        "assumptions": [
            "<[u8]>::eq_ignore_ascii_case (core): same length and octets equal after ASCII lower-casing",
            "<[u8] as Ord>::cmp / PartialOrd::partial_cmp (core): left-justified octet-string order (axiom_slice_cmp_octets)",
            "<[u8] as PartialEq>::eq (core): equality of the octet strings (axiom_slice_eq_octets)",
            "Ord for Label == RFC 4034 label order (iterator adapters; discharged on the compiled code by Kani c04_label_order_eq_hash_len63, thorough tier)",
            "Nsec3HashAlgorithm (int_enum! macro over u8) is modelled as an octet with the integer's Eq/Ord; Nsec3Salt/OwnerHash are at most 255 octets (their constructors' invariant)",
            "Timestamp::{partial_cmp, canonical_cmp, into_int} (under contract in unit serial, C17), Rtype/SecurityAlgorithm/Ttl as integers",
            "Iterator::eq over label iterators with PartialEq for Label: element-wise ci equality and same number of elements",
            "unit namehash: core's Hash for u8 writes the octet (write_u8); Label::iter() (slice iter + copied) and the label iterators of Name / RelativeName / ParsedName are cursors over the octets / labels in order (ParsedNameIter: unit nameparse)",
            "ToName implementors: iter_labels() enumerates labels(), as_flat_slice() (when Some) is the concatenated wire form of labels(); labels are at most 63 octets; absolute names end with the only empty label (C03)",
        ],
    },
    "C10": {
        "level": "proof",
        "level_prefix": "Partial proof -- contracts discharged without bound on the mechanisms named below, not the whole statement (bounded stand-ins and what is left out are listed): ",
        "units": ["xfr", "xfrsize"],
        "vx_search": {"bin": "c10_search_small_streams", "crate": "replay_net", "release": True,
                      "what": "about 78000 response streams of at most 6 records over {SOA 1, SOA 2, SOA 3, A .1, A .2}, as AXFR and IXFR, in one "
                              "and in two messages, through the real XfrResponseInterpreter, compared with the stream automaton of the unit's "
                              "contract -- run only to find a concrete stream for a failed Verus obligation"},
        "extra_searches": [
            {"bin": "c09_search_zone_histories", "crate": "replay_net", "release": True,
             "what": "the receiving side's store: all 520 486 writer/reader histories of at most 7 steps on the real in-memory zone (see C09); for C10 "
                     "the clauses 'the difference set a zone reports when a change is committed, applied to the old content, yields the new "
                     "content' (diff of every commit after one open(true), incl. RRsets written twice in one version) and 'never leave a "
                     "partially applied version visible' (abandoned writes, also after commit + re-open as the updater does per IXFR batch)"},
            {"bin": "c10_search_xfr_end_to_end", "crate": "replay_xfr", "release": True,
             "what": "the statement end to end on 511 version pairs (version 1 = a fixed eight-record zone, version 2 = version 1 after every non-empty "
                     "subset of nine elementary changes: apex NS added, apex A changed, an A changed below the apex, a name added, a name removed, an "
                     "RRset grown, shrunk, given another TTL, replaced with growth and shrinkage at once): the sender applies the change through "
                     "ZoneUpdater; the diff reported at commit applied to version 1 gives version 2; the XFR middleware serves it as IXFR, the "
                     "response interpreter and a ZoneUpdater apply it to a receiver holding version 1, which then holds version 2; the middleware "
                     "serves version 2 as AXFR to an empty receiver, which then holds version 2 -- on the real crate (server and client harness "
                     "written by a round-7 seeding sub-agent)"},
        ],
        "kani": [],
        "replays": [
            {"bin": "d3_xfr_wrong_qtype", "crate": "replay_net", "finding": "D3"},
            {"bin": "d48_zone_diff_stale_entries", "crate": "replay_net", "finding": "D48"},
            {"bin": "d51_zone_diff_ttl", "crate": "replay_net", "finding": "D51"},
            {"bin": "d52_zone_diff_remove_all", "crate": "replay_net", "finding": "D52", "expect": "fail"},
        ],
        "explanation": "XfrMiddlewareSvc::calc_msg_bytes_available (unit xfrsize, real text with the real constants): what the XFR batcher may fill plus what later layers have reserved on the request (the TSIG record of a signed transfer, the OPT record) is exactly the size limit of the transport -- the hint of the UDP context, 512 without one, 65535 on a stream -- so a message filled to the brim still takes its TSIG record (seed C10-12). XfrZoneUpdateIterator::next (unit xfr, real text): the records of a message go through the processor one by one and in order (the processor state afterwards is the fold `run` of the RFC 5936 / RFC 1995 step function over exactly the records consumed), what is yielded for a record is what process_record said -- DeleteAllRecords first, the record's own update held for the next call --, a parse error or a rejected record ends the call with that error, the call terminates, and the retry-over-TCP signal is given only for an unfinished IXFR whose stream so far is one record. contracts on the transfer-stream state machine (real text of net/xfr/protocol/interpreter.rs, message and record "
                       "types reduced to prelude models): XfrResponseInterpreter::check_response accepts exactly the RFC 5936 section "
                       "2.2.1 header predicate; Inner::new is total (no unreachable!()) and starts the processor in the right mode; "
                       "RecordProcessor::process_record equals one step of the RFC 5936/1995 stream automaton xfr_step (opening SOA "
                       "required, AXFR ends on a copy of the opening SOA, DeleteAllRecords exactly once before the first AXFR update, "
                       "IXFR delete/add phases toggle exactly on SOA records, fallback to AXFR when the second record is not a SOA, "
                       "nothing accepted after the end), with stream-level consequences as lemmas over the step function.",
        "not_covered": "Reconstruction fidelity end to end beyond the 511 version pairs of c10_search_xfr_end_to_end (other record types, zones "
                       "that need several messages, multi-step IXFR sequences, faults in the stream), TSIG on streams, the "
                       "server side (batcher, responder). Message/record/SOA types are prelude models, not the real generic types.",
        "assumptions": [
            "Message<Bytes>, ParsedRecord, ZoneRecordData, Soa, Rtype, Opcode are reduced prelude models (arbitrary header fields, question type and first answer record)",
            "rr_count < usize::MAX (machine arithmetic: the record counter cannot overflow in practice)",
        ],
    },
    "C11": {
        "level": "proof",
        "level_prefix": "Partial proof -- contracts discharged without bound on the mechanisms named below, not the whole statement (bounded stand-ins and what is left out are listed): ",
        "units": ["tsig", "tsigvars", "tsigplace", "tsigseq"],
        "extra_searches": [
            {"bin": "c11_search_tampering", "crate": "replay_tsig", "release": True,
             "what": "what happens to correctly signed messages on the way, all four algorithms, full and half-length MACs (168 cases): the header ID "
                     "rewritten by a forwarder (request, answer, every answer of a sequence of three) -- the message verifies and carries the original ID "
                     "again; the algorithm name of the TSIG record rewritten -- another letter case is accepted, further labels behind a known first label, "
                     "another algorithm, an unknown name, the root are never accepted; the order key, MAC, time on the server -- an untouched request is "
                     "accepted inside the fudge window and answered with a signed BADTIME (which the client authenticates) outside, a request with one MAC "
                     "bit or one question octet flipped is answered with unsigned BADSIG whatever the clock says -- on the real crate"},
        ],
        "vx_search": {"bin": "c11_search_small_tsig", "crate": "replay_tsig", "release": True,
                      "what": "Time48 wire round trip and eq_fudged on a grid around the byte and fudge edges; Key::new against the RFC 8945 "
                              "5.2.2.1 length rule for all algorithms and lengths 0..=70; request/answer/three-answer sequences signed and "
                              "verified for every signing length of HMAC-SHA256, one flipped bit rejected; 99 unsigned answers accepted, the "
                              "100th refused; request MACs of all four algorithms under key names in lower, upper and mixed case against an "
                              "independent RFC 8945 4.3.3 computation (ring), accepted by a server spelling the key name differently -- on the real crate"},
        "kani": [],
        "replays": [
            {"bin": "d36_tsig_sequence_truncated_mac", "crate": "replay_tsig", "finding": "D36"},
            {"bin": "d37_tsig_wrong_secret_rcode", "crate": "replay_tsig", "finding": "D37"},
            {"bin": "d38_tsig_unsigned_error_panics", "crate": "replay_tsig", "finding": "D38"},
            {"bin": "d9_tsig_badtime_mac", "crate": "replay_tsig", "finding": "D9"},
            {"bin": "d58_tsig_algorithm_name_case", "crate": "replay_tsig", "finding": "D58"},
        ],
        "explanation": "Unit tsigseq (tsig/mod.rs, real text of ClientSequence::{answer, answer_first, answer_subsequent}, whole functions -- the earlier FRAGMENT of answer_subsequent in unit tsig is superseded): nothing unsigned is accepted before a signed first answer has verified, and a rejected first answer leaves the sequence waiting for one; a message is accepted as signed only if the MAC of its TSIG record compares equal (Key::compare_signatures, unit tsig) to the HMAC of the running context over the header with the original ID and ARCOUNT - 1, the message up to the TSIG record and the TSIG variables, and its time is in order; never more than 99 unsigned messages in a row (the 100th is TooManyUnsigned); the slice [12..tsig.start] stays inside the message. Unit tsigplace (tsig/mod.rs, real text): MessageTsig::from_message hands out a TSIG record only if it is the first record of type TSIG in the additional section, parses as TSIG data and is the last record of the section (RFC 8945 5.2), with `start` the position where it begins; no TSIG is Missing, a TSIG followed by anything is Position, a record that does not parse ParseError, TSIG-typed data that does not parse Invalid; the loop terminates. SigningContext::check_answer_time: a NOTAUTH answer with TSIG error BADTIME reports the server's time (FormErr if it carries none) before the local window is looked at; otherwise BadTime exactly when the local clock is outside time signed +- fudge. contracts on the arithmetic and comparison parts of TSIG (the HMAC is ring: asm/FFI, out of reach): "
                       "Algorithm::within_len_bounds and Key::calculate_bounds accept exactly the RFC 8945 section 5.2.2.1 lengths "
                       "max(10, native/2) <= len <= native; Key::compare_signatures is Ok iff the provided MAC is at least "
                       "min_mac_len long, not longer than the computed one and equal to its prefix, BadTrunc/BadSig otherwise; "
                       "Key::signature_slice in bounds; Time48::{from_u64, from_slice, into_octets} are the 48-bit big-endian codec "
                       "and eq_fudged(a,b,f) <=> |a-b| <= f without overflow; ClientSequence::answer_subsequent (first statement, FRAGMENT) never "
                       "lets the run of unsigned messages exceed 99 and ClientSequence::done is Ok iff the last message was signed; "
                       "ServerSequence::answer_with_fudge (real text, HMAC and TSIG record construction as assumed stubs) continues "
                       "its running context with exactly the MAC it puts on the wire (possibly truncated), which is what the "
                       "receiver continues with; Tsig::new/rdlen: the 65535-octet limit (see C05). Variables::sign (unit tsigvars, real text): what is fed to "
                       "the HMAC after the message is exactly the RFC 8945 4.3.3 TSIG variables in order -- key name in canonical wire form (labels "
                       "lower-cased), CLASS ANY, TTL 0, algorithm name, 48-bit time signed, fudge, error, other length (6 or 0) and the other data. One native replay computes the MAC of a BADTIME error "
                       "response independently (regression guard for D9, a sample, not an obligation).",
        "not_covered": "MAC values (ring) and the message part of the signed octets (SigningContext::*: the tsig feature is not built under Kani), end-to-end sign/verify, tamper rejection beyond the searches, the server side beyond ServerSequence::answer_with_fudge "
                       "(ServerTransaction, ServerSequence::request), the client's single-message transaction "
                       "(ClientTransaction::answer), restoring the pre-signing octets (remove_tsig / update_id on the real Message). "
                       "TSIG record placement (MessageTsig::from_message, unit tsigplace) and the run of unsigned messages "
                       "(ClientSequence::answer_subsequent, unit tsigseq) are under contract over a model of Message.",
        "assumptions": [
            "ring::hmac::{Algorithm, Tag} are prelude models (digest lengths 20/32/48/64); constant_time_eq is slice equality",
            "core::cmp::max is specified through vstd's OrdSpec",
            "unit tsigvars: {u16,u32}::to_be_bytes give the big-endian octets (method name substituted by a model trait's), Time48::into_octets as proved in unit tsig, "
            "key.name.iter_labels().map(Label::to_canonical) is a cursor over the lower-cased labels, Algorithm::into_wire_slice is an uninterpreted function of the algorithm "
            "(the native search compares the resulting MACs with an independent computation for all four algorithms)",
        ],
    },
    "C16": {
        "level": "proof",
        "level_prefix": "Partial proof -- contracts discharged without bound on the mechanism named below, not the whole statement (what is left out is listed): ",
        "units": ["ednsneg", "starterr", "xfrsize"],
        "kani": [],
        "extra_searches": [
            {"bin": "c16_search_udp_sizes", "crate": "replay_srv", "release": True,
             "what": "the real DgramServer on a loopback socket behind Mandatory(Edns(service)): 168 combinations of server limit (512 / 700 / 1232 / 4096, set at start or by "
                     "reconfiguring the running server), client (no OPT record, or advertising 100 / 512 / 600 / 1000 / 1232 / 4096) and answer size (3 / 28 / 120 records): the response has the "
                     "request's ID and question and parses completely, is no longer than min(max(512, advertised), max(512, limit)) -- 512 without EDNS --, and has TC set exactly when records "
                     "had to go; a full answer that fits is not cut (bounded exploration; server harness after a round-11 seeding sub-agent's demonstration programs; its first run found D60)"},
            {"bin": "c16_search_stream_pipelining", "crate": "replay_srv", "release": True,
             "what": "the real StreamServer on a loopback TCP socket: 12 pipelining scenarios -- request A whole, the first 1 / 2 / 3 / 7 / 20 / all-but-one octets of the length-prefixed request B while the "
                     "answer to A is held back or not, the rest of B after A's response, then request C -- every request answered exactly once with its own ID and question, framing intact (bounded exploration; "
                     "harness after a round-11 seeding sub-agent's demonstration program; decides seed C16-1, a receive future that is not cancel-safe dropped by a tidied-up select!)"},
        ],
        "explanation": "XfrMiddlewareSvc::calc_msg_bytes_available (unit xfrsize, real text with the real constants): what the XFR batcher may fill plus what later layers have reserved on the request (the TSIG record of a signed transfer, the OPT record) is exactly the size limit of the transport -- the hint of the UDP context, 512 without one, 65535 on a stream -- so a message filled to the brim still takes its TSIG record (seed C10-12). The size clause of the statement, at the place where the limit is decided. EdnsMiddlewareSvc::preprocess (net/server/middleware/edns.rs, the whole 170-line function, real text): for every request, "
                       "exactly the requests RFC 6891 6.1.1 / 6.1.3 and RFC 7828 3.2.1 name are broken off -- more than one OPT record, an OPT record that does not parse, a keep-alive option with a timeout over TCP: FORMERR; "
                       "an EDNS version above 0: BADVERS -- and no other; for a UDP request with a usable OPT record the limit installed in the transport context (which the mandatory middleware truncates to) is at least 512, "
                       "at most the requestor's advertised payload size with values below 512 counted as 512, and, if the server was configured with a limit, at most that limit (not under 512). The property is the "
                       "*precondition* of the model of UdpTransportContext::set_max_response_size_hint (the real one stores through Arc<Mutex<..>> behind a shared reference, so no postcondition of preprocess can name the "
                       "stored value; the model context carries the advertised size of the request's first OPT record as ghost state). The u16 arithmetic and Ord::clamp (lo <= hi) cannot panic. "
                       "reserve_space_for_opt (real text): 11 octets are reserved for the OPT record of the response, 17 over TCP (keep-alive option). MandatoryMiddlewareSvc::truncate (the enforcing side, real text: nested conditions, "
                       "the question loop, the closure that rebuilds a minimal OPT record): a response is touched only over UDP and only if it is longer than the limit -- 512 octets for a request without an OPT record (this clause, taken from the property, exposed D60), otherwise the limit of the transport context (512 without one) --; then TC is set, "
                       "answer and authority sections are dropped, the questions stay in order and an OPT record stays only if the response had one; ID, QR and RD are left alone; an error leaves the header fields alone. "
                       "MandatoryMiddlewareSvc::{preprocess, postprocess} "
                       "(middleware/mandatory.rs, real text): in strict mode IQUERY is answered NOTIMP and a QUERY with more than one question FORMERR, nothing else is broken off; whatever the service produced "
                       "leaves with the ID of its request, QR set and RD copied from the request, also when truncation fails and a SERVFAIL takes its place. MessageBuilder::{start_answer, start_error} (unit starterr, base/message_builder.rs, real text -- every server error path goes through "
                       "mk_error_response -> start_error): the response header gets the request's ID, QR set, the request's opcode and RD bit and the given code; the request's questions are copied in order; start_answer "
                       "fails if one does not fit, start_error never fails -- it stops at the first question that does not fit and answers SERVFAIL.",
        "not_covered": "Everything else of the statement: that every response is sent back once, to the requester, with the request's ID and question, correctly framed (sockets, tasks and middleware stacks over tokio); that the "
                       "rebuilt message is itself within the limit (truncate does not compare it with the limit again, and the response's whole OPT record is copied: an observation, see DESIGN.md); well-formedness of "
                       "truncated messages at octet level (C02); "
                       "hostile input on one connection not affecting others. Message::opt() / additional() / the OPT iterator are models (C01 has the real iterators).",
        "assumptions": [
            "Request, Message, OptRecord, TransportSpecificContext and the tracing macros are prelude models; log_enabled!() may answer anything",
            "the ghost payload size of the model context equals the size advertised by the request's first OPT record (Request::inv)",
            "u16::max / u16::min / Ord::clamp are core::cmp::max / min and the three-way clamp (substituted; core's Ord for u16)",
        ],
    },
    "C15": {
        "level": "proof",
        "level_prefix": "Partial proof -- contracts discharged without bound on the mechanisms named below, not the whole statement (bounded stand-ins and what is left out are listed): ",
        "units": ["queries", "sections", "streamcfg", "dgram", "multistream"],
        "extra_searches": [
            {"bin": "c15_search_dgram_scripts", "crate": "replay_client", "release": True,
             "what": "the datagram transport under tokio's virtual clock against a scripted in-memory peer: for each of the two transmissions up to two "
                     "actions out of {stray reply with another ID, right ID and another question, header-only NOERROR, header-only SERVFAIL, garbage, the "
                     "query echoed back, the good answer} at 10 %, 50 % or 99.9 % of the read timeout -- 53 824 scripts: the request completes inside "
                     "(1 + max_retries) x read_timeout with at most 1 + max_retries transmissions; a response handed out has the request's ID and repeats its "
                     "question or is a header-only error reply; the request succeeds exactly when something that answers it arrives in a window that is "
                     "reached -- on the real crate (in-memory network written by a round-7 seeding sub-agent)"},
            {"bin": "c15_search_truncation_fallback", "crate": "replay_client", "release": True,
             "what": "dgram_stream against an in-memory datagram peer and stream server: for all 16 RCODE values and four ways a truncated datagram "
                     "answer can arrive (at once, after a stray reply, on the retry, with a partial answer section) the caller gets the stream's complete "
                     "answer from exactly one stream request; a datagram answer that is not truncated never contacts the stream -- on the real crate"},
        ],
        "replays": [
            {"bin": "d53_stream_response_timeout", "crate": "replay_net", "finding": "D53"},
            {"bin": "d54_stream_unrelated_replies", "crate": "replay_net", "finding": "D54"},
        ],
        "kani": [
            {"group": "repo_client", "name": "c15_queries_match_model_bounded", "kind": "bounded", "tier": "quick", "timeout": 600,
             "bound": "every sequence of 4 operations (insert / try_remove of any index / try_remove + insert_at) on an empty table, all values",
             "what": "compiled Queries against an array model: an ID handed out is never still outstanding, try_remove returns "
                     "exactly the stored item, count and is_empty agree with the model (also the companion that decides when the "
                     "Verus unit loses an anchor after a restructuring)"},
            {"group": "repo_client", "name": "c15_queries_step_from_any_state_bounded", "kind": "bounded", "tier": "quick", "timeout": 600,
             "bound": "tables of at most 6 slots, any occupancy, any curr allowed by the invariant, all values; one operation",
             "what": "compiled Queries, one insert or try_remove from ANY state satisfying the representation invariant of unit "
                     "queries: insert never hands out an occupied slot and changes no other slot, try_remove returns what was "
                     "stored, the invariant is preserved (an induction step, so histories of every length are covered up to the "
                     "table size)"},
        ],
        "explanation": "Unit multistream (net/client/multi_stream.rs, real text of the async state machine Request::get_response; DESUGAR_ASYNC second form: every `.await` becomes `.await_m()` on a prelude model of the awaited value, where a bare future has `await_m() requires false` and only a future wrapped in timeout(..) may be waited for): at every await point of the function -- asking the run loop for a connection, receiving it, the query itself, the retry delay -- the wait is under tokio's timeout, `remaining` is computed without underflow and an elapsed budget returns StreamReadTimeout at the next turn; the documented panic 'Already done' is a precondition (seed C15-9, the command hand-over awaited without a timeout, fails the obligation at that await). Transport::insert_req of the multiplexed stream transport (unit queries, real text): whatever the connection state and the request, no outstanding request is disturbed, at most one slot is taken, a message is handed to the writer only together with a recorded request, and whenever a request is outstanding afterwards the connection is Active with the response timer armed -- the fact the run loop's response timeout rests on (seed C15-8, the timer cleared on a refused request while another is in flight, fails it). Unit dgram (net/client/dgram.rs, real text of the async Connection::handle_request_impl -- the whole life of one request on the datagram transport -- under edit kind DESUGAR_ASYNC, with sockets, semaphore, clock and timer as prelude models that may answer anything at every step): the message handed to the caller has passed request.is_answer for the request as last transmitted (same question, the ID of that transmission), whatever arrived before it; the number of transmissions is 1 + max_retries, which cannot overflow because Config::set_max_retries (real text, with DefMinMax::limit) trims the value to at most 100 (seed C15-7, a truncated datagram accepted without the test, fails the postcondition). contract on the data structure that ties a response to its request on a multiplexed stream (message ID = slot "
                       "index of net/client/stream.rs::Queries): representation invariant (count == number of occupied slots, all slots "
                       "below curr occupied, at most 65535 slots so every index fits a 16-bit ID) is preserved by new/insert/insert_at/"
                       "try_remove; insert hands out only a slot that was free or new and leaves every other slot untouched (no "
                       "outstanding request loses or shares its ID), refuses exactly when 2*count > 65535, and its two expect() calls "
                       "cannot fail; try_remove returns exactly the stored item and clears only that slot. The test every transport applies to an incoming "
                       "message (unit sections, real text of base/message.rs): Message::is_answer says yes only for a response (QR set) that "
                       "carries the query's ID and the query's question count, and QuestionSection's == (the loop over both question sections) "
                       "terminates for any two messages and says equal only if both sections parse completely and have the same length -- so a "
                       "reply with another ID, a query echoed back, or a reply with a missing or extra question is never handed to the caller as its answer. "
                       "RequestMessage::is_answer (net/client/request.rs, the function the datagram and stream transports call): yes only for a response with "
                       "the request's ID that either repeats the request's question section or is a header-only reply with an error RCODE -- a bare NOERROR "
                       "header is refused. The configured timeout (unit streamcfg, real text of stream::Config and utils::config::DefMinMax): after "
                       "set_response_timeout(t) the timeout in effect, the one installed for single-response requests and the streaming one are all t trimmed "
                       "to 1 ms..600 s (this contract exposed D53).",
        "not_covered": "Everything else about delivery: question-by-question equality inside is_answer rests on Question's == (under contract in C04's unit nameorder: same name up to ASCII case, same type, same class), the header-only error reply rule of the transports (the acceptance test itself, RequestMessage::is_answer, is under contract in unit sections; the datagram transport is proved to apply it to everything it hands out, the stream transports are not), exactly-once completion, "
                       "the redundant and load-balancing transports, multi_stream's reconnection logic, real sockets and real-time scheduling (async tasks "
                       "over tokio; schedules are outside contract-based verification -- the datagram transport's receive loop and the truncation fallback "
                       "are explored natively under a virtual clock, see the searches, not proved).",
        "assumptions": ["core::cmp::min is specified through vstd's OrdSpec"],
    },
    "C12": {
        "level": "proof",
        "level_prefix": "Partial proof -- contracts discharged without bound on the mechanisms named below, not the whole statement (bounded stand-ins and what is left out are listed): ",
        "units": ["rrsigdata", "nameorder", "keytag", "nameparse", "dsdigest"],
        "extra_searches": [
            {"bin": "c12_search_rsa_keys", "crate": "replay_sign", "release": True,
             "what": "RSA keys: crypto::common::rsa_exponent_modulus (through which every RSA DNSKEY reaches the verifier) against RFC 3110 section 2 "
                     "written out independently over 22 400 key fields -- both encodings of the exponent length, exponent and modulus lengths on both "
                     "sides of 1 and 512 octets, leading zero octets, fields cut short, minimum modulus lengths on both sides of the actual one; RRsets "
                     "signed with RSASHA256 keys of 2048 and 4096 bits (fixtures generated for this check) verify under the signer's own DNSKEY over the "
                     "data the validator reconstructs, an altered RRset does not -- on the real crate (slice patterns and ring: outside both verifiers)"},
        ],
        "vx_search": {"bin": "c12_search_sign_verify", "crate": "replay_sign", "release": True,
                      "what": "A and MX RRsets under ordinary, wildcard and interior-asterisk owners signed with fresh Ed25519 and ECDSA P-256 keys "
                              "(ring): the RRSIG carries the RFC 4034 3.1.3 label count and verifies over the data RrsigExt::signed_data "
                              "reconstructs -- reordered, TTL decremented, owner and RDATA names in another case, as wildcard expansions with "
                              "upper case in the replaced and in the kept part -- and does not verify changed data; sign_sorted_rrset_in with one "
                              "scratch buffer for a sequence of RRsets, a buffer that is not empty on entry and a key back end that fails "
                              "once in between: every RRSIG returned verifies; DS digests (SHA-1, SHA-256, SHA-384) of the generated keys under "
                              "mixed-case owners equal an independent ring computation over lower-cased name | DNSKEY RDATA; on the real crate"},
        "kani": [
            {"group": "g0", "name": "c12_key_tag_matches_rfc4034_bounded", "kind": "bounded", "tier": "quick",
             "bound": "public keys of 0..=12 octets, all flags/protocol/algorithm values except RSAMD5, all key contents",
             "what": "Dnskey::key_tag == the RFC 4034 Appendix B computation over the DNSKEY RDATA"},
            {"group": "g0", "name": "c12_key_tag_rsamd5_bounded", "kind": "bounded", "tier": "quick",
             "bound": "RSAMD5 keys of 0..=6 octets", "what": "key tag of algorithm 1 keys: octets len-3, len-2; 0 for short keys; no panic"},
            {"group": "g0", "name": "c12_key_tag_matches_rfc4034_len48_bounded", "kind": "bounded", "tier": "thorough",
             "bound": "public keys of exactly 48 octets", "what": "as above at a realistic key size"},
            {"group": "g0", "name": "c12_rrsig_label_count_fixed_layout_bounded", "kind": "bounded", "tier": "quick",
             "bound": "owner names of three one-octet labels (all contents), the root name and `*.`",
             "what": "ToName::rrsig_label_count on the compiled code: labels without the root and without a LEFTMOST asterisk label "
                     "only (RFC 4034 3.1.3) -- the compiled counterpart of the contract in unit nameorder"},
        ],
        "explanation": "The validator reconstructs the signed owner through ParsedName::as_flat_slice / to_cow in the wildcard branch of signed_data: unit nameparse (the `compressed` flag is cleared only for names whose octets are flat) also runs here (seed C12-13). the signed octets, on both sides, against one RFC 4034 3.1.8.1 spec function (unit rrsigdata, real text, no bound): "
                       "the signer's sign_sorted_rrset_in returns an RRSIG whose fields are the RFC 4034 3.1 fields (type covered, algorithm of "
                       "the key, Labels per 3.1.3, original TTL = TTL of the RRset, expiration and inception in that order, key tag of the "
                       "signing key, signer name = owner of the key), placed at the RRset's owner, class and TTL, whose signature is the key "
                       "back end's signature over exactly RRSIG_RDATA | RR(1) | RR(2) | ... -- whatever the scratch buffer held on entry -- "
                       "and refuses RRSIG RRsets and inverted validity periods; its expect(\"long signature\") and debug_assert are dead; "
                       "ProtoRrsig::{new, compose_head, compose_canonical, into_rrsig}, Rrsig::{new, new_unchecked, accessors} and "
                       "Record::compose_canonical write the fields in wire order; the validator's RrsigExt::signed_data sorts the records by "
                       "canonical RDATA and appends RRSIG_RDATA and, per record, the owner reconstructed from the Labels field (RFC 4035 "
                       "5.3.2: `*.` + the rightmost Labels labels when the answer owner is longer), type, class, the ORIGINAL TTL, RDLENGTH and "
                       "canonical RDATA; wildcard_closest_encloser answers Some(the rightmost Labels labels) exactly when the owner has more labels "
                       "than the Labels field. Lemmas over these contracts: what signed_data reconstructs for the RRset handed back in any order, "
                       "with any TTL, with owners in any letter case or expanded from the wildcard owner, is the octet string that was "
                       "signed. The value of the Labels field: ToName::rrsig_label_count (real text, unit nameorder, every name "
                       "representation). Dnskey::key_tag (unit keytag, real text, the real slice iterator, no bound on the key size): for every DNSKEY "
                       "within the 65535-octet RDATA limit the result is the RFC 4034 Appendix B computation over flags | protocol | algorithm | "
                       "public key (octets at even offsets times 256 plus octets at odd offsets, folded once), the 32-bit accumulator cannot "
                       "overflow, and for algorithm 1 it is the 16 bits before the last key octet (0 for keys shorter than three octets) with no "
                       "failing unwrap() or index; the same on the compiled code against an independent transcription of Appendix B (Kani, "
                       "bounded, key sizes stated). Timestamp ordering is covered by C17; the canonical name and RDATA orders the signer sorts by are "
                       "covered by C04 (units nameorder, nsec3order); canonical RDATA per type by C05. The DS digest (unit dsdigest, real text of "
                       "<Dnskey as DnskeyExt>::digest; edit kind DESUGAR_WITH_INFALLIBLE turns each step of the with_infallible closure into "
                       "an obligation 'cannot fail'): for SHA-1, SHA-256 and SHA-384 the hash the DS type names is taken over exactly "
                       "canonical owner name | DNSKEY RDATA (RFC 4034 5.1.4), every other digest type is refused; the hash functions are a "
                       "model (a context remembers its type and what it was fed, in order).",
        "not_covered": "The cryptography (ring/openssl sign, verify and hash: asm/FFI; modelled as 'a signature / digest over exactly these "
                       "octets'), tamper rejection beyond what the native search samples, sign_rrset's own sort and the zone-level signing "
                       "loops (sign_sorted_zone_records: key selection, skipping of glue and delegations). "
                       "In Dnskey::key_tag the expression u16::from_be_bytes(key[len-3..len-1].try_into().unwrap()) of the RSA/MD5 branch is "
                       "substituted by a model function (no Verus specification can be attached to from_be_bytes / try_into); the bounded "
                       "Kani harness c12_key_tag_rsamd5_bounded covers the compiled expression.",
        "assumptions": [
            "integer, Rtype, Class, Ttl, Timestamp and SecurityAlgorithm compose as their big-endian octets (Compose for int_enum!/integers: to_be_bytes)",
            "ToName::compose_canonical appends the lower-cased uncompressed name (RFC 4034 6.2); iter_labels().count() and "
            "to_cow().iter_suffixes().nth(k) behave as label count and k-th suffix; names are valid absolute names (C03)",
            "ToName::rrsig_label_count as proved in unit nameorder; ComposeRecordData::compose_canonical_len_rdata appends RDLENGTH and the canonical RDATA (C05)",
            "<[T]>::sort_by yields a permutation ordered by the closure; Rrset accessors answer from the first record of a non-empty RRset and Rrset::iter yields its records in order",
            "SignRaw::sign_raw returns a signature of at most 4096 octets over exactly the octets it is given; the From<SignError> conversion of `?` is folded into the model",
            "the two sorted record sequences of the agreement lemma correspond record by record (uniqueness of the sorted order of distinct canonical RDATA is not proved)",
        ],
    },
    "C06": {
        "level": "proof",
        "level_prefix": "Partial proof -- contracts discharged without bound on the mechanisms named below, not the whole statement (bounded stand-ins and what is left out are listed): ",
        "units": ["symbols", "zfsource", "zfinherit"],
        "vx_search": {"bin": "c06_search_roundtrip", "crate": "replay_net", "release": True,
                      "what": "100 records of 28 types with boundary field values (names with every kind of octet and of 255 octets, character "
                              "strings with all octet values / 255 octets / spaces and quotes, TXT with up to 300 strings, empty binary fields, "
                              "unknown types, all SVCB parameter kinds, odd classes and TTLs) written in the three zone-file display kinds and "
                              "read back with the zone-file reader: each comes back equal -- on the real crate; the record level of the "
                              "statement, which no contract reaches (open findings D30 and D42 are not among the cases)"},
        "kani": [
            {"group": "g0", "name": "c06_symbol_from_chars_all_inputs", "kind": "complete", "tier": "quick",
             "what": "Symbol::from_chars (the reader behind FromStr of names and IterScanner) reads four characters at most: over four symbolic characters "
                     "and a symbolic length it agrees with RFC 1035 5.1 written out independently (plain character; \\DDD is the octet DDD exactly when DDD <= 255; "
                     "\\X for printable non-digit X; otherwise an error; None on the empty source) and consumes exactly the characters of the symbol"},
            {"group": "g0", "name": "c06_from_slice_index_window_bounded", "kind": "bounded", "tier": "quick",
             "bound": "buffers of at most 6 octets, every position 0..=8 (the function reads at most 4 octets from pos)",
             "what": "Symbol::from_slice_index (the reader): total; None exactly at/after the end; a returned end is > pos, <= len, "
                     "<= pos+4; ASCII read as itself; decimal and simple escapes yield their octet"},
            {"group": "g0", "name": "c06_core_ascii_classes_match", "kind": "complete", "tier": "quick",
             "what": "core's u8::is_ascii_control / is_ascii_digit / char::is_ascii (assumed in units/symbols) on every octet / char"},
            {"group": "g0", "name": "c06_symbol_octet_roundtrip", "kind": "complete", "tier": "quick", "timeout": 400,
             "what": "for every octet: Symbol::from_octet -> Display -> Symbol::from_slice_index consumes exactly the written text and "
                     "yields the octet; the written symbol never ends a word for the zone-file tokenizer (is_word_char)"},
            {"group": "g0", "name": "c06_label_octet_display_roundtrip", "kind": "complete", "tier": "quick", "timeout": 400,
             "what": "for every octet as a one-octet label: Display for Label -> reader yields the octet; no unescaped dot and no "
                     "unescaped character that ends a word (owner names are written with this Display)"},
        ],
        "replays": [
            {"bin": "d28_ipseckey_no_gateway_zonefile", "crate": "replay_net", "finding": "D28"},
            {"bin": "d29_svcparamkey_charset", "crate": "replay_net", "finding": "D29"},
            {"bin": "d30_no_default_alpn_mnemonic", "crate": "replay_net", "finding": "D30", "expect": "fail"},
            {"bin": "d42_svcb_alpn_not_escaped", "crate": "replay_net", "finding": "D42", "expect": "fail"},
            {"bin": "d8_owner_name_special_chars", "crate": "replay_net", "finding": "D8"},
            {"bin": "d17_owner_leading_dollar", "crate": "replay_net", "finding": "D17"},
        ],
        "explanation": "The reading half: the units of C07 that put the zone-file reader under contract also run here -- zfsource (the tokenizer and the in-place conversion of names, character strings and octets: a character string of up to 255 octets is accepted on both conversion paths) and zfinherit (a record gets the class and TTL written on its line). Verus (unit symbols): Symbol::{from_octet, quoted_from_octet, display_from_octet} choose exactly the specified "
                       "escape class per octet, Symbol::into_octet / is_word_char are exact, and the chosen symbol means the octet. Kani: "
                       "per-symbol writer/reader agreement, complete over all octet values (the escaping rules shared by the presentation "
                       "writer and the zone-file reader are per octet and context-free, so all 256 cases decide this layer); binary "
                       "fields in Base16/32/64 are decided under C18. One native replay writes and re-reads whole records whose owner "
                       "contains tokenizer-special characters.",
        "not_covered": "Record-level agreement (every record type's field order, TTL/class rendering, multi-line and tabbed forms, "
                       "RFC 3597 generic form, quoted character strings and TXT): needs core::fmt, the Scanner trait-object graph and "
                       "BytesMut, out of reach of both tools beyond single symbols (CBMC needs 45 s for one symbol through fmt).",
    },
    "C13": {
        "level": "proof",
        "level_prefix": "Partial proof -- contracts discharged without bound on the mechanisms named below, not the whole statement (bounded stand-ins and what is left out are listed): ",
        "units": ["nsecchain", "sortedrecs"],
        "vx_search": {"bin": "c13_search_small_zones", "crate": "replay_sign", "release": True,
                      "what": "4096 zones (apex plus every subset of eleven owner names: ordinary names, a wildcard, an insecure delegation that "
                              "also holds a TXT record, a secure delegation whose zone file also carries the child's SOA, glue and deeper "
                              "names below them, a delegation point that also holds an A record and is written in upper case, names that "
                              "create empty non-terminals below the apex and below a name that owns records, names outside the zone; both "
                              "DNSKEY settings; NSEC3 owner labels compared with an independent iterated SHA-1 / Base32hex computation) through generate_nsecs and "
                              "generate_nsec3s (without opt-out, with opt-out excluding the insecure delegations, with the opt-out flag only): against an independent declarative description -- one NSEC per owner name in "
                              "the zone not below a delegation point, canonical order, next pointers closing at the apex, exact bitmaps, TTL "
                              "and class; one NSEC3 per such name and per empty non-terminal, sorted by hash, next hashed owner closing the "
                              "ring, no NSEC bit, empty bitmap exactly at empty non-terminals, parent-side types at delegations, the opt-out flag on every record exactly when "
                              "configured, and under exclusion no NSEC3 for an insecure delegation nor for an empty non-terminal that exists only because of it -- on the real crate"},
        "kani": [],
        "explanation": "Unit sortedrecs (dnssec/sign/records.rs, real text of SortedRecords::{new, insert, remove_first_by_name_class_rtype, remove_all_by_name_class_rtype, len, is_empty, into_inner}): the collection the generators read the zone from stays in strictly ascending canonical order -- the precondition of generate_nsecs and of the RRset iterators -- after every one of these operations, for collections of any size: insert refuses a record already present and otherwise adds exactly that record at its place (core binary_search_by under an assumed contract: partition point of a slice ordered for the comparison closure, whose ensures clause is verified), a removal takes out exactly one record that matches the name / class / type asked for and leaves the others in order (seed C13-8, swap_remove, fails it), remove_all terminates. the NSEC chain: dnssec::sign::denial::nsec::generate_nsecs (real text, both loops with invariants, no bound on the "
                       "zone) returns, for the sorted owner names it is given, exactly one NSEC per name that is in the zone and not below a "
                       "delegation point (delegation points included; the scan over the sorted names that skips everything under the last "
                       "delegation point and ignores names outside the zone is written as the spec function `scan`), in the order of "
                       "the input, each pointing to the owner of the next one and the last one to the apex, with a type bitmap of exactly "
                       "RRSIG, NSEC, the types present at the name (only NS and DS at a delegation point) and DNSKEY at the apex when the "
                       "configuration says so, class of the SOA and TTL = min(SOA MINIMUM, SOA TTL) (RFC 9077); its four unwrap() calls are "
                       "dead. Canonical order of the input is the subject of C04; the bitmap encoding of C05. NSEC3 chains and the NSEC "
                       "chain on concrete zones: the native search.",
        "not_covered": "NSEC3 generation (generate_nsec3s: hashing with ring, empty non-terminal discovery, opt-out, collision handling, "
                       "1400 lines of iterator and sorter code) is outside the contracts and only sampled by the native search (bounded; three opt-out modes); that the scan over sorted names equals the declarative 'not below any delegation point' (needs the "
                       "subtree-contiguity of the canonical order) is checked by the native search only; NSEC3PARAM placement; the "
                       "record iterators (RecordsIter, OwnerRrs, Rrset: SliceRefsOrOwned) are modelled, not verified.",
        "assumptions": [
            "RecordsIter yields the owner groups of the sorted zone in order, skip_before drops the names before the first one at or below the apex; "
            "OwnerRrs::{owner, is_in_zone, is_zone_cut, rrsets} and Rrset::{rtype, class, len, first} answer as their text says (is_zone_cut: not the apex and an NS RRset)",
            "the zone has its only SOA RRset at the first name of the zone; the names of the zone are contiguous in the sorted input (preconditions of the contract; the second is a property of the canonical order, C04)",
            "RtypeBitmapBuilder::add inserts the type and does not fail on an unbounded octets builder; finalize keeps the set (encoding: C05)",
            "ToName::ends_with and == on names compare label-wise ignoring ASCII case (C04)",
        ],
    },
    "C14": {
        "level": "proof",
        "level_prefix": "Partial proof -- contracts discharged without bound on the mechanisms named below, not the whole statement (bounded stand-ins and what is left out are listed): ",
        "units": ["nsecval"],
        "kani": [],
        "extra_searches": [
            {"bin": "c14_search_validator_scenarios", "crate": "replay_sign", "release": True,
             "what": "the validator through its public API against a generated hierarchy . -> test. -> example.test. (ECDSA P-256, in-memory upstream, "
                     "NSEC3 chain rebuilt under salts that put each of the seven names at the wrap-around point): 360 answers -- correctly signed answers "
                     "Secure; a flipped signature bit, a missing signature, a signature by a key outside the DNSKEY RRset never Secure; KSK and ZSK with the "
                     "same key tag both verify; genuine NXDOMAINs with their three NSEC3 records Secure; an NXDOMAIN for an existing name supported by every "
                     "NSEC3 of the zone but its own never Secure -- on the real crate (harness written by a round-7 seeding sub-agent)"},
            {"bin": "c12_search_rsa_keys", "crate": "replay_sign", "release": True,
             "what": "malformed RSA keys from upstream (the clause 'no malformed key makes the validator panic'): crypto::common::rsa_exponent_modulus, "
                     "through which every RSA DNSKEY reaches the verifier, over 22 400 key fields -- both encodings of the exponent length, lengths on both "
                     "sides of the data that follows, fields cut short -- never panics and accepts exactly the RFC 3110 section 2 layouts (shared with C12)"},
        ],
        "replays": [
            {"bin": "d55_validator_ttl0_panic", "crate": "replay_sign", "finding": "D55"},
        ],
        "incrate_native": [
            {"test": "dnssec::validator::nsec::verif_native::c14_search_nsec3_labels", "kind": "search",
             "file": "native/incrate/validator_nsec.rs",
             "what": "16 900 labels (every string of <= 4 octets over digits, letters inside and outside A-V in both cases, '-', '=', "
                     "space and a non-ASCII octet; every label length 1..63 filled with digits / letters, with a bad last character, "
                     "a non-UTF-8 first octet, a two-octet character at the end; real hashes) through the private "
                     "validator::nsec::nsec3_label_to_hash: no panic, Some exactly for unpadded Base32hex text, the hash writes back "
                     "as the label (bounded exploration, in-crate through the verif_native hook)"},
            {"test": "dnssec::validator::group::verif_native::d44_cached_verdict_outlives_signature", "kind": "replay", "finding": "D44",
             "file": "native/incrate/validator_group.rs",
             "what": "Group::check_sig_cached under the crate's test clock: a verdict computed while a signature was valid (or not yet "
                     "valid) must not be served after its expiration (inception) time"},
        ],
        "explanation": "Soundness of the denial-of-existence proofs (NSEC and NSEC3) and totality of the helpers that read upstream-controlled content; the signature chain itself is not under contract. 'No upstream NSEC3 owner label makes the validator panic': "
                       "validator::nsec::nsec3_label_to_hash (real text; core::str::from_utf8 and OwnerHash::from_str stubbed with "
                       "arbitrary results) has no reachable expect/unwrap/panic for any label. The interval predicates every "
                       "denial proof rests on: nsec_in_range == 'owner < target < next, the last NSEC of the zone covering "
                       "everything after its owner' and nsec3_in_range == the circular interval of RFC 5155 8.3 (real text, "
                       "comparison operators written as method calls on models carrying the position in the total order). The validity clock of a cached "
                       "node: Node::ttl (real text, Duration modelled as a number with a panicking `-`) is total however much time has passed and "
                       "never exceeds the validity (this contract pins D55: a DNSKEY RRset served with TTL 0 made the validator panic). Soundness of the NSEC "
                       "denial proofs: nsec_for_nodata, nsec_for_not_exists, nsec_for_nxdomain and nsec_for_nodata_wildcard (real text) conclude NODATA, "
                       "non-existence (with the closest encloser that NSEC gives), a name error (two proofs: the name and the wildcard at its closest "
                       "encloser) and wildcard NODATA only when groups of the answer prove them in the sense of RFC 4035 5.4 (predicates proves_nodata / "
                       "proves_nx: right owner or covering interval, type and CNAME absent, the right side of a zone cut, no empty non-terminal, no "
                       "delegation or DNAME above the name). Which NSEC of a group counts is now the real get_checked_nsec (real text): it hands out the group's NSEC "
                       "exactly when the group is a secure NSEC RRset of one record validated by the expected signer and not expanded from a wildcard "
                       "(the spec function `checked` the four proof finders are stated over), and its panic!(\"NSEC expected\") is unreachable on groups whose "
                       "records carry the data of the group's type. get_checked_nsec3 and supported_nsec3_hash (real text): nothing in an NSEC3 group is "
                       "acted upon -- neither handed out as proof material nor turned into an Insecure / Bogus verdict for too many iterations (RFC 9276) -- "
                       "unless the group is secure, validated by the expected signer, holds one NSEC3 record and uses SHA-1; a record is handed out only "
                       "within both iteration limits, unchanged, and only if the hash spelled by its owner label has the length of the next-owner hash; "
                       "above the bogus limit the verdict is Bogus, between the limits Insecure, never Secure. nsec_closest_encloser (real text, both suffix "
                       "loops): the name returned is the longest suffix of the target among the suffixes of the NSEC's owner and next name "
                       "(lemma_closest_encloser_is_longest gives the declarative reading; a tie is the same name, so either comparison operator verifies). "
                       "NSEC3 closest encloser proof (real text of the async functions nsec3_for_not_exists, nsec3_for_not_exists_no_ce and nsec3_for_nxdomain; edit kind DESUGAR_ASYNC: "
                       "`async` and `.await` removed, the awaited hash cache is a prelude model -- the body is sequential over its own locals): 'does not exist, closest "
                       "encloser ce' is concluded only if ce is one of the candidate names between the signer and the target, is the signer's apex or is matched by a trusted "
                       "NSEC3 that allows it to be a closest encloser (no DNAME, NS only with SOA), and the candidate one label longer -- the next closer name -- is covered "
                       "by a trusted NSEC3 (RFC 5155 8.3; predicate ce_proof, with no opt-out for the secure verdict); the invariant that carries it is 'the candidate closest "
                       "encloser is the name handled last and is shown to exist' (seed C14-6, a stale candidate surviving a name the answer says nothing about, fails it); "
                       "nsec3_for_not_exists_no_ce says 'does not exist' securely only if a trusted NSEC3 without opt-out covers the name; nsec3_for_nxdomain (RFC 5155 8.4) only "
                       "with the closest encloser proof and such a cover for the wildcard at the closest encloser; the panic!()s for impossible validation states are unreachable. "
                       "nsec3_label_to_hash and get_checked_nsec3 are functions of the group (spec function checked3), which is what lets the proofs name the NSEC3 records. "
                       "nsec3_for_nodata and nsec3_for_nodata_wildcard (real text): secure NODATA only from a trusted NSEC3 that matches the name and shows the type and CNAME absent, from the right side of a zone cut "
                       "(RFC 5155 8.5 / 8.6), or -- wildcard NODATA, 8.7 -- with the closest encloser proof and such a record for the wildcard. "
                       "The verdict on a whole answer: the tail of ValidationContext::validate_msg (real text from the point where the groups are validated and the alias chain has been followed; edit form FRAGMENT/tail, the "
                       "head is read from a model of self) with utilities::map_maybe_secure: the verdict is Secure only if the chain of CNAME / DNAME records from QNAME to the final name was Secure (seed C14-5); a name error "
                       "only with a secure SOA whose signer vouches for an NSEC or NSEC3 name-error proof in the sense of the contracts above; NODATA only with a secure SOA and one of the four NODATA proofs; a positive "
                       "answer only if the answering group is Secure and, when it was expanded from a wildcard, the name itself is shown not to exist. utilities::{get_answer_state, get_soa_state, "
                       "check_not_exists_for_wildcard} (real text): the answering group is the first one of the class, type and owner asked for; the SOA that vouches for a negative answer is the first SOA group of the class "
                       "at or above the name; a wildcard expansion is accepted as Secure only with an NSEC proof of non-existence whose closest encloser is the one the signature gives, or a trusted NSEC3 without opt-out that "
                       "covers the next closer name (predicate wildcard_nx_proved) -- these are the functions the postconditions of validate_msg are stated over.",
        "not_covered": "Soundness of 'secure' beyond the 360 scenarios of the native search (signature chains to a trust anchor, NSEC/NSEC3 proofs), insecure-delegation handling, "
                       "do_cname_dname, validate_groups and everything before them in validate_msg (message to groups, signature chains: async code over caches and the upstream), get_child_of_ce (an uninterpreted function here), what other tasks do to the shared hash cache between the await points of the "
                       "async functions (the cache is modelled as a function: the hash of a name under given parameters), every other panic site of the "
                       "validator (e.g. nsec3_hash(..).unwrap()), loops: async code over caches and crypto, out of reach. That every group of type NSEC "
                       "carries NSEC data (the precondition that makes get_checked_nsec's panic unreachable) is established where groups are built from "
                       "parsed records (group.rs, AllRecordData::parse) and is an assumption here.",
        "assumptions": [
            "names and NSEC3 hashes are compared through a total order (C04: name_cmp, octet order); modelled by an integer key",
            "core::str::from_utf8 and OwnerHash::from_str (Base32hex, C18) return Ok or Err, never panic, and are functions of their input",
            "cached_nsec3_hash (moka cache + ring) returns the NSEC3 hash of the name under the record's parameters (hash_spec, uninterpreted; C13 compares the hash with an independent implementation)",
            "VecDeque<Name> is modelled by new / push_front / consumption front first; DESUGAR_ASYNC treats an async body as sequential code over its locals",
            "ValidatedGroup is a model of its accessors (the real ones clone private fields); group.inv(): records of an NSEC group carry NSEC data",
            "axiom_suffixes / axiom_common_suffix: Name::iter_suffixes lists the suffixes of a name longest first down to the root, every name ends with the root, two suffixes of one name with the same label count are equal (facts about names, not proved in this unit)",
        ],
    },
    "C09": {
        "level": "proof",
        "level_prefix": "Partial proof -- contracts discharged without bound on the mechanisms named below, not the whole statement (bounded stand-ins and what is left out are listed): ",
        "units": ["versioned"],
        "vx_search": {"bin": "c09_search_zone_histories", "crate": "replay_net", "release": True,
                      "what": "all 520 486 histories of at most 7 enabled steps (take and hold a reader; obtain the writer; ask for a second writer "
                              "while the first is open -- its future must stay pending -- and let it in afterwards; open without / with diff tracking; "
                              "update_rrset / remove_rrset on three owner names, one new, one holding two records, one update changing only the TTL, remove_all at the apex "
                              "(the zone also holds a delegation and a CNAME, i.e. nodes with a `special`), at most three edits; commit; drop "
                              "the writer) on the real in-memory zone, compared after every step with a map model: each held reader walks and "
                              "queries exactly the content committed when it was taken, a new reader exactly the committed content (nothing staged, "
                              "nothing abandoned, also after later commits), a commit publishes exactly the staged content, and the diff it hands "
                              "out leads from the old to the new content. Single-threaded with hand-polled futures: deterministic, no real-thread "
                              "schedules"},
        "kani": [
            {"group": "repo_zonetree", "name": "c09_versioned_get_matches_spec_bounded", "kind": "bounded", "tier": "quick",
             "bound": "tables of at most 4 (version, Option<u8>) entries, arbitrary versions and values, every reader version",
             "what": "Versioned::get (iterator adapters, outside Verus) == the abstract lookup spec_get used by the Verus contracts"},
            {"group": "repo_zonetree", "name": "c09_version_next_is_newer", "kind": "complete", "tier": "quick",
             "what": "Version::next() is strictly newer than the version it comes from (RFC 1982), all 2^32 versions, on the compiled "
                     "derive(PartialOrd) of Version"},
        ],
        "explanation": "the per-node mechanism behind 'readers see one committed version': Versioned::{update, remove, rollback} "
                       "(real text) are proved to change the entry table exactly as specified, and over those contracts: any writer "
                       "operation at a version w that is not <= v leaves the value seen by a reader at v unchanged (snapshot "
                       "stability, unbounded, for any table), and rollback undoes the writer's update. Versioned::get is tied to the "
                       "abstract lookup by a bounded Kani harness (in-crate, via the cfg(kani) hook).",
        "not_covered": "Real-thread interleavings, the writer mutex, publication of a new version to readers (ZoneVersions, arc-swap, "
                       "RwLock), atomicity of commit across all nodes, walking a zone: Kani has no threads, Verus has no model of "
                       "parking_lot/arc-swap/Arc; this claim is about one Versioned<T> cell only.",
    },
    "C07": {
        "level": "proof",
        "level_prefix": "Partial proof -- contracts discharged without bound on the mechanisms named below, not the whole statement (bounded stand-ins and what is left out are listed): ",
        "units": ["zfsource", "zfinherit"],
        "extra_searches": [
            {"bin": "c07_search_layouts", "crate": "replay_net", "release": True,
             "what": "the second half of the statement, as a metamorphic exploration: a 9-record zone (SOA, NS, A, AAAA, CNAME, MX, TXT, SRV) written in "
                     "18 144 combinations of layout choices that must not matter -- owner absolute / relative to $ORIGIN / `@` / inherited; TTL explicit / "
                     "from $TTL / from the last stated TTL, before or after the class; class inherited; relative names in record data; tabs and runs of "
                     "blanks; trailing comments; data in parentheses, continuation lines with comments, parentheses glued to tokens and to the owner; "
                     "decimal and character escapes in owner names; blank and comment lines; CRLF; origin stated in the file or handed to the reader -- "
                     "each read back as exactly the records of the canonical layout; and 84 spellings of 63/64-octet labels and 255/256-octet character "
                     "strings (plain, escaped, quoted, behind an escaped label) judged alike; 109 directive placements and readers: nothing / blank line / "
                     "comment / $TTL / $ORIGIN (same or other origin) between a record and the entries that inherit its owner read like the file with every "
                     "owner written out, and a 400-record file (> 8192 octets) through Zonefile::load from readers handing out 1 .. 8193 octets per call or "
                     "from two or three chained pieces reads like the slice. On the real crate; a bounded exploration, never counted as an obligation"},
        ],
        "vx_search": {"bin": "c07_search_small_files", "crate": "replay_net",
                      "what": "all 30941 zone files of at most 4 octets over the tokenizer's 13 special octets, read through the public API "
                              "under a 10 s progress watchdog"},
        "kani": [
            {"group": "g0", "name": "c06_from_slice_index_window_bounded", "kind": "bounded", "tier": "quick",
             "bound": "buffers of at most 6 octets, every position 0..=8",
             "what": "the contract that unit zfsource assumes for Symbol::from_slice_index (end position > pos and <= len; None "
                     "exactly at the end), checked on the compiled function"},
            {"group": "repo_zonefile", "name": "c07_next_item_total_bounded", "kind": "bounded", "tier": "thorough", "timeout": 900,
             "bound": "buffer tails of at most 4 octets (every octet value), parenthesis depth 0..=2, loop bound 6 iterations",
             "what": "SourceBuf::next_item on the compiled code (in-crate harness): returns without panic or out-of-bounds read, "
                     "stays inside the buffer, and the item category matches the octet it stopped at -- independent of how the "
                     "loop is written (the Verus unit proves it for every length but is tied to the loop structure of the text)",
             "search": {"bin": "c07_search_small_files", "crate": "replay_net",
                        "what": "all 30941 files of at most 4 octets over the 13 special octets, read through the public API with a 10 s progress watchdog"}},
        ],
        "replays": [
            {"bin": "d31_nsec3_scan_long_salt_hash", "crate": "replay_net", "finding": "D31"},
            {"bin": "d33_zonefile_quoted_string_token", "crate": "replay_net", "finding": "D33"},
            {"bin": "d16_zonefile_txt_at_eof", "crate": "replay_net", "finding": "D16"},
            {"bin": "d46_scan_decimal_overflow", "crate": "replay_net", "finding": "D46"},
            {"bin": "d47_unknown_marker_swallows_delimiter", "crate": "replay_net", "finding": "D47"},
            {"bin": "d61_zonefile_raw_del", "crate": "replay_net", "finding": "D61"},
            {"bin": "d62_zonefile_class_inheritance", "crate": "replay_net", "finding": "D62"},
        ],
        "explanation": "Unit zfinherit (zonefile/inplace.rs, real text of EntryScanner::{scan_owner_record, scan_record, scan_at_record, _scan_entry} and Zonefile::{set_origin, set_default_class}): the inheritance rules behind \"inherited versus explicit owner, TTL and class produce the same records\" -- a record's class is the one written on its line, else the last one stated (an error if none ever was; in validating mode a class other than the last one is refused), and a class stated on a line is what later lines inherit (D62, fixed); its TTL is the one written (which later lines then inherit), else the $TTL in effect, else the last TTL stated; an indented line takes the owner of the last line that stated one and leaves it alone, a line with an owner (or `@`, which needs an origin) sets it; nothing else of what later lines inherit changes, and an entry that is not a record changes none of it. the totality half of the statement, for the tokenizer every zone-file read goes through "
                       "(zonefile/inplace.rs::SourceBuf, real text): next_item (white space, parentheses, comments, line ends, quotes) "
                       "terminates on every buffer, never reads outside it, its parenthesis counter never underflows and its "
                       "assert!(token completely read) is a precondition proved at every extracted call site; _next_symbol / "
                       "next_symbol / next_char_symbol / next_ascii_symbol / peek_symbol / skip_at_token / skip_unknown_marker keep "
                       "the read position inside the buffer, their unreachable!() arms are unreachable, and a symbol is consumed "
                       "only if one is handed out; split_to/trim_to keep the invariant (their asserts are preconditions). EntryScanner::convert_label (the "
                       "in-place conversion of one label of a name, both its fast path and its escape-decoding path): what is written never overtakes "
                       "what is still to be read, the length octet written in front of the label says how many octets follow and never more than 63 "
                       "(a longer label is refused on both paths), and when there is nothing to convert the write position is where it was; "
                       "EntryScanner::convert_charstr likewise with the 255-octet limit of a character string. EntryScanner::scan_name (the zone-file "
                       "reader's name scanner, real text): the octets it hands to the unchecked constructor of RelativeName are a correctly encoded "
                       "relative name at both call sites (labels of 1..=63 octets: an empty label inside a name is refused -- D32 --, the invariant is "
                       "carried through convert_label's contract), its expect() cannot fail, and a name it returns is that relative part chained to "
                       "the origin or the root with at most 255 octets together -- a valid absolute name (C03). In-place conversion of octet data "
                       "(EntryScanner::{append_data, convert_one_token, convert_token, convert_entry}, real text): converted octets never overwrite "
                       "input that is still to be read (same_reader) and move to a builder of their own, with everything converted so far, before they "
                       "would; the decoder gets its symbols and then process_tail exactly once, last, and the result is everything it handed out; the "
                       "loop over the tokens of an entry terminates because every token moves the reader on -- proved from next_item and next_symbol "
                       "agreeing on which octets end an unquoted token (special_octet / Symbol::is_word_char). scan_octets, scan_svcb_octets and scan_ascii_str "
                       "(real text): the in-place rewriting of escapes stays inside the buffer and behind the read position, and the safety condition of the "
                       "unsafe str::from_utf8_unchecked in scan_ascii_str holds (only octets below 128 are handed over).",
        "not_covered": "Layout independence beyond the metamorphic search c07_search_layouts (a relation between two runs on two files; no contract on a single call expresses it), "
                       "the rest of EntryScanner (scan_entry, scan_symbols / scan_entry_symbols (FnMut closures), scan_charstr_entry; what scan_octets / scan_ascii_str return is not specified beyond safety; convert_token / convert_entry / append_data are under contract: in-place safety, converter protocol, termination of the token loop -- but not which symbols a token consists of), record-data "
                       "scan() functions, scan_ctr (closures over str) and Zonefile::next_entry (applies $ORIGIN / $TTL entries; the scanner holds the zone file by mutable reference inside a temporary), error positions. Symbol::from_slice_index is assumed to "
                       "return an end position inside the buffer (its own totality is not proved).",
        "assumptions": [
            "bytes::BytesMut is modelled as an octet sequence of at most isize::MAX octets (get, split_to, advance)",
            "Symbol::from_slice_index: a returned end position is > pos and <= len; None exactly at the end of the buffer",
            "machine arithmetic: parens/line counters and offsets cannot overflow while the total input stays below isize::MAX octets (counters_ok)",
        ],
    },
    "C05": {
        "level": "proof",
        "level_prefix": "Partial proof -- contracts discharged without bound on the mechanisms named below, not the whole statement (bounded stand-ins and what is left out are listed): ",
        "units": ["rtypebitmap", "tsig", "rdcompose", "rdparse", "rdbin", "rdnames", "charstr"],
        "extra_searches": [
            {"bin": "c05_search_opt_options", "crate": "replay", "release": True,
             "what": "OPT options: every option code 0..=20 and 65001 with every payload of at most 4 octets over six octet values, client subnets of "
                     "both families with every prefix length, cookies of 0..=41 octets, extended errors with UTF-8 and non-UTF-8 text, key tag and "
                     "algorithm lists, CHAIN names (37 294 pairs) through the typed option parsers: whatever parses reports the length it composes, "
                     "and what it composes parses back and composes to the same octets -- on the real crate"},
        ],
        "vx_search": {"bin": "c05_search_small_rdata", "crate": "replay", "release": True,
                      "what": "317 small values of 34 record data types (A, AAAA, MX, SRV, NS, CNAME, PTR, DNAME, MB, MD, MF, MG, MR, MINFO, RP, NAPTR, SOA, NSEC, "
                              "RRSIG, DNSKEY, DS, CDS, CDNSKEY, TLSA, SSHFP, OPENPGPKEY, ZONEMD, CAA, IPSECKEY with all four gateway kinds, NSEC3PARAM, "
                              "NSEC3, TXT, HINFO; boundary values, mixed-case names, full 32-octet bitmap "
                              "windows, 255-octet strings, salts and hashes): rdlen == octets written, parse(compose(x)) == x, canonical form == wire form with "
                              "exactly the listed names lower-cased, the same through ZoneRecordData and through the `&T` forwarders, and as records of a "
                              "message built without and with each of the three name compressors (the RDLENGTH frames the data, the records read back as "
                              "the value) -- on the real crate"},
        "kani": [
            {"group": "g0", "name": "c05_a_roundtrip", "kind": "complete", "tier": "quick",
             "what": "A: every address: rdlen == 4 == octets written; parse(compose(x)) == x consuming all; canonical form identical"},
            {"group": "g0", "name": "c05_a_parse_any_rdata", "kind": "complete", "tier": "quick",
             "what": "A: any RDATA of 0..=6 octets: accepted iff >= 4 octets, consumes exactly 4, re-composes to the same octets"},
            {"group": "g0", "name": "c05_aaaa_roundtrip", "kind": "complete", "tier": "quick",
             "what": "AAAA: every address: rdlen == 16 == octets written; parse(compose(x)) == x"},
            {"group": "g0", "name": "c05_charstr_parse_every_length", "kind": "complete", "tier": "quick",
             "what": "CharStr::parse (HINFO, TXT, NAPTR, CAA ... fields): every length octet 0..=255 and every available input length "
                     "1..=256: accepted iff the announced octets are there, length and consumed octets exact"},
            {"group": "g0", "name": "c05_ds_roundtrip_bounded", "kind": "bounded", "tier": "quick",
             "bound": "all scalar fields, digest 0..=6 octets", "what": "DS: rdlen exact, round trip, re-compose fixpoint"},
            {"group": "g0", "name": "c05_dnskey_roundtrip_bounded", "kind": "bounded", "tier": "quick",
             "bound": "all scalar fields, key 0..=6 octets", "what": "DNSKEY: rdlen exact, round trip, re-compose fixpoint"},
            {"group": "g0", "name": "c05_tlsa_sshfp_roundtrip_bounded", "kind": "bounded", "tier": "quick",
             "bound": "all scalar fields, data 0..=6 octets", "what": "TLSA, SSHFP: rdlen exact, round trip, re-compose fixpoint"},
            {"group": "g0", "name": "c05_hinfo_roundtrip_bounded", "kind": "bounded", "tier": "thorough", "timeout": 600,
             "bound": "two character strings of 0..=3 octets", "what": "HINFO: rdlen exact, round trip, re-compose fixpoint"},
            {"group": "g0", "name": "c05_mx_srv_roundtrip_bounded", "kind": "bounded", "tier": "thorough", "timeout": 1500,
             "bound": "one fixed mixed-case two-label name, all scalar fields",
             "what": "MX, SRV: rdlen exact; canonical form == wire form with exactly the embedded name lower-cased (RFC 4034 6.2 / RFC 6840 5.1)"},
        ],
        "replays": [
            {"bin": "d35_opt_push_ignores_option_header", "finding": "D35"},
            {"bin": "d45_dnskey_parse_long", "finding": "D45"},
            {"bin": "d59_caa_tag_long", "finding": "D59"},
            {"bin": "d40_infallible_constructors_long_rdata", "finding": "D40", "expect": "fail"},
            {"bin": "d41_ipseckey_new_vs_parse", "finding": "D41", "expect": "fail"},
        ],
        "explanation": "Unit tsig (rdata/tsig.rs, base/rdata.rs): Tsig::new accepts exactly the data whose wire length (algorithm "
                       "name + 16 + MAC + other) fits the 16-bit RDLENGTH, LongRecordData::{check_len, check_append_len} are the "
                       "65535 limit, and Tsig::rdlen on an accepted value equals that wire length with no failing expect() or "
                       "overflow. Unit rdcompose (rdata/dnssec.rs): Dnskey::new and Ds::new accept exactly the data that fits RDLENGTH; "
                       "on accepted values rdlen() == number of octets compose_rdata() appends, the octets are the fields in wire "
                       "order, and compose_canonical_rdata() appends the same octets (these are the wire forms the C04 unit "
                       "nsec3order orders by); the same for Nsec3param with its length-prefixed salt (Nsec3Salt::{salt_len, "
                       "compose_len, compose}). Unit rdparse (rdata/dnssec.rs, rdata/cds.rs, rdata/nsec3.rs): Nsec3Salt::parse reads one length octet and that many octets, "
                       "Nsec3param::parse the four fixed octets and the salt, with the wire form of the value == the octets consumed; "
                       "Dnskey, Ds, Cdnskey and Cds::parse accept exactly the "
                       "record data of 4..=65535 octets, consume all of it, and return a value that satisfies the type invariant rdlen() and "
                       "compose_rdata() rely on and whose wire form -- the same spec function the composing side is verified against -- is "
                       "the octets read; lemmas: the layouts are injective, so parse(compose(x)) has the fields of x and "
                       "compose(parse(octets)) == octets, for every value and every length (this is the contract that exposed D45). "
                       "Unit rdbin (rdata/tlsa.rs, sshfp.rs, zonemd.rs, openpgpkey.rs, real text of both directions in one unit): for TLSA, SSHFP, "
                       "ZONEMD and OPENPGPKEY one spec function wire() per type is what compose_rdata() and compose_canonical_rdata() append, "
                       "what rdlen() measures (on values within the 65535 limit, which the infallible constructors do not enforce: D40) and what "
                       "parse() reads -- parse accepts exactly the record data that has the fixed octets (ZONEMD: and a digest of at least 12 "
                       "octets), consumes all of it and returns a value whose wire form is the octets read; the layouts are injective, so "
                       "parse(compose(x)) has the fields of x for data of every length. "
                       "Unit rdnames (rdata/rfc1035/mx.rs, rdata/srv.rs, rdata/rfc1035/soa.rs, rdata/rp.rs, rdata/rfc1035/minfo.rs, real text): record data with embedded names. "
                       "RP and MINFO (two names): the same clauses as for MX below, with rdlen(true) == None because compose_rdata writes both names in "
                       "compressed form on a compressing target. For MX, SRV and SOA compose_rdata() on a target that does not compress appends wire() (fields in wire order, names as "
                       "stored); on a compressing target MX and SOA write the same fields in the same order with each name in the target's "
                       "compressed form and SRV still writes it uncompressed (RFC 2782); compose_canonical_rdata() appends canon() = the same "
                       "with exactly the embedded names lower-cased (RFC 4034 6.2); rdlen(false) is the length of both and rdlen(true) is None "
                       "for MX and SOA; parse() reads the integers big-endian and the names in wire order, each name starting where the "
                       "previous field ended (SOA: accepted exactly when two names and twenty octets are there). "
                       "Otherwise: bounded/complete contract checking with Kani of the compose/parse/rdlen quadruple on the compiled, "
                       "macro-generated generic code, for the record types CBMC can handle: A and AAAA complete over all values; DS, "
                       "DNSKEY, TLSA, SSHFP, HINFO with small symbolic octet fields; MX and SRV with one fixed name (canonical "
                       "lower-casing). Verus unit rtypebitmap (rdata/dnssec.rs, real text): the type bitmap shared by NSEC, NSEC3 "
                       "and CSYNC data -- RtypeBitmap::from_octets accepts exactly the sequences of RFC 4034 section 4.1.2 windows "
                       "(each window 1..=32 bitmap octets, wholly inside the data; so every bitmap a builder can produce parses "
                       "back; that window numbers ascend, which the RFC also demands, is not checked by the code -- an audit "
                       "observation, see DESIGN.md), and on accepted data contains / read_window / split_rtype and the iterator RtypeBitmapIter::{new, "
                       "advance, next} are total: the unwrap() cannot fail, no index leaves the data, advance terminates (for "
                       "bitmaps of every length); and the iteration is exact: new() stands on the first set bit, every next() reports the type of "
                       "the bit it stands on (window << 8 | octet << 3 | bit) and moves to the next set bit without passing one (the count "
                       "bits_after of set bits still to come drops by exactly one per item and is zero when the iterator is exhausted), so the types "
                       "listed are exactly the bits set. Unit charstr (base/charstr.rs, rdata/rfc1035/hinfo.rs, rdata/naptr.rs via rdnames, rdata/caa.rs, real text): "
                       "character strings, HINFO and CAA -- CaaTag::{check_slice, new, from_octets, from_octets_unchecked, compose_len, compose, parse} keep the "
                       "tag invariant (letters and digits, at most 255 octets: the safety condition of the unchecked constructors; this contract exposed D59), "
                       "Caa::parse accepts exactly a flags octet, a tag and any value, consumes all of the record data and returns a value whose wire form "
                       "(flags | length-prefixed tag | value) is the octets read; rdlen() is the length of what compose_rdata() and compose_canonical_rdata() append "
                       "(on values within the 65 535 limit, which the infallible constructor does not enforce: D40). NSEC (unit rdnames, rdata/dnssec.rs, real text of Nsec::{new, next_name, set_next_name, types, rdlen, "
                       "compose_rdata, compose_canonical_rdata, parse}): the RDATA is the next name as stored, never compressed, followed by the bitmap; the canonical form is the same octets (RFC 6840 5.1 took NSEC off the "
                       "list of types whose names are lower-cased; seed C05-16 fails this postcondition); rdlen is its length with and without compression; parse reads a name and takes all that follows as the bitmap "
                       "(whose own format is under contract in unit rtypebitmap). NSEC3 (units rdcompose / rdparse, rdata/nsec3.rs, real text of OwnerHash::{hash_len, compose_len, compose, from_octets_unchecked, parse} and "
                       "Nsec3::{new, hash_algorithm, flags, opt_out, iterations, salt, next_owner, types, rdlen, compose_rdata, compose_canonical_rdata, parse}): one wire() -- algorithm, flags, big-endian iterations, "
                       "length-prefixed salt, length-prefixed next hashed owner, bitmap -- is what both composers append, what rdlen() measures and what parse() reads; parse accepts exactly that layout with a "
                       "well-formed bitmap in all that follows, consumes all of the record data and hands out parts that satisfy their 255-octet invariants; opt_out() is the least significant flag bit.",
        "assumptions": [
            "AsRefOctets models the bound AsRef<[u8]>: an octets value has one fixed content returned by every as_ref() call",
            "Rtype (int_enum! macro) is modelled as a 16-bit code with from_int/to_int",
            "octets values are at most a quarter of the address space long (makes the checked_add(..).expect() of Tsig::new dead code)",
            "ToName::compose_len is between 1 and 255 (C03)",
            "unit rdnames: ToName::{compose, compose_canonical, compose_len} append / measure the uncompressed wire form as stored / lower-cased (label iterators; C03, C04), "
            "name_eq/name_cmp/lowercase_composed_cmp as proved in unit nameorder; ParsedName::parse is a function name_at(window, position) of the message "
            "(unit nameparse); a compressing target's append_compressed_name writes an uninterpreted compressed form (reading it back: C02)",
            "Compose for u8/u16/int_enum! types appends the big-endian octets (to_be_bytes has no Verus specification); Composer::append_slice appends exactly the slice or fails leaving the target alone",
            "Parse for u8/u16/int_enum! types reads the big-endian octets and fails without moving on short input; Parser::parse_octets (Octets::range) returns the next len octets (octseq; for [u8] slicing)",
        ],
        "not_covered": "The macro-generated enums ZoneRecordData/AllRecordData (rdata/macros.rs: one match arm per method and variant; "
                       "extraction works on syn items, not macro bodies, and CBMC does not finish on the enum even for one variant: "
                       "only the native search c05_search_small_rdata reaches it; it is what decides seeded change C05-6). The types not named in the explanation: the one-name family generated by macro (NS, CNAME, PTR, DNAME, MB, MD, MF, MG, MR: "
                       "rdata/rfc1035/name.rs and macros), A / AAAA, NULL, WKS-era types, RRSIG's own compose / parse (its fields are under "
                       "contract in C12's unit rrsigdata), the SVCB/HTTPS parameter section beyond the target name and its framing "
                       "(svcparams: C01), OPT and its options, the TSIG record beyond new / rdlen, IPSECKEY, Unknown/opaque carry; "
                       "symbolic names inside RDATA under Kani (CBMC does not finish on them; the Verus units treat names as arbitrary "
                       "label sequences), LongRecordData limits near 65535 octets beyond check_len / check_append_len.",
    },
}
