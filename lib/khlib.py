#!/usr/bin/env python3
"""kh: Kani/CBMC harnesses against the real crate (path dependency on /repo)."""
import os
import re
import shutil
import subprocess
import time

VERIF = os.path.dirname(os.path.dirname(os.path.abspath(__file__)))
REPO = os.environ.get("VERIF_REPO", "/repo")
BUILD = os.path.join(VERIF, ".build")
ALT = REPO != "/repo"
if ALT:
    import hashlib
    BUILD = os.path.join(VERIF, ".build", "alt", hashlib.sha256(REPO.encode()).hexdigest()[:8])
    os.makedirs(BUILD, exist_ok=True)


def group_dir(group):
    return os.path.join(VERIF, "kani", group)


REPO_GROUPS = {
    # in-crate harnesses (private items): cargo kani runs on /repo itself, build output under /verif/.build
    "repo_zonetree": ["unstable-zonetree"],
    "repo_client": ["unstable-client-transport"],
    "repo_zonefile": ["bytes", "zonefile"],
}


# feature sets with which the crate's own lib test target compiles (needed by `cargo kani playback` for in-crate harnesses)
REPO_GROUP_TEST_FEATURES = {
    "repo_zonetree": ["bytes", "unstable-zonetree", "zonefile", "serde"],
    "repo_client": ["bytes", "unstable-client-transport", "zonefile"],
    "repo_zonefile": ["bytes", "zonefile", "serde"],
}


def prepare(group):
    if group in REPO_GROUPS:
        return REPO
    d = group_dir(group)
    pg = os.path.join(d, "src", "playback_gen.rs")
    if not os.path.exists(pg):
        open(pg, "w").write("// generated at run time by khlib.native_playback\n")
    if ALT:
        # scratch checkout of the repository (seed runs): a copy of the harness crate whose path dependency points there
        src = d
        d = os.path.join(BUILD, "crates", "kani-" + group)
        os.makedirs(d, exist_ok=True)
        ct = open(os.path.join(src, "Cargo.toml")).read().replace('path = "/repo"', f'path = "{REPO}"')
        open(os.path.join(d, "Cargo.toml"), "w").write(ct)
        if os.path.isdir(os.path.join(src, ".cargo")) and not os.path.exists(os.path.join(d, ".cargo")):
            shutil.copytree(os.path.join(src, ".cargo"), os.path.join(d, ".cargo"))
        if not os.path.islink(os.path.join(d, "src")):
            os.symlink(os.path.join(src, "src"), os.path.join(d, "src"))
    # Cargo.lock of /repo pins every dependency version (offline resolution)
    shutil.copyfile(os.path.join(REPO, "Cargo.lock"), os.path.join(d, "Cargo.lock"))
    return d


def run_group(group, harnesses, jobs=4, timeout=3600, extra=None, playback=False):
    """Run the named harnesses of one group in a single cargo-kani invocation.

    Returns dict harness -> result dict:
      status: 'success' | 'failed' | 'undecided'
      checks, failed, covers, covers_sat, time_s, failed_checks [str], reason
    """
    d = prepare(group)
    env = dict(os.environ)
    env["CARGO_NET_OFFLINE"] = "true"
    env["CARGO_TARGET_DIR"] = os.path.join(BUILD, "kani-" + group)
    if group in REPO_GROUPS:
        env["CARGO_TARGET_DIR"] = os.path.join(BUILD, "kani-repo")
    cmd = ["cargo", "kani", "-Z", "function-contracts", "-Z", "stubbing", "--output-format=terse", "-j", str(jobs)]
    if group in REPO_GROUPS:
        cmd += ["--features", ",".join(REPO_GROUPS[group])]
    if playback:
        cmd += ["-Z", "concrete-playback", "--concrete-playback=print"]
    for h in harnesses:
        cmd += ["--harness", h, "--exact"] if False else ["--harness", h]
    if extra:
        cmd += extra
    t0 = time.time()
    try:
        p = subprocess.run(cmd, cwd=d, env=env, capture_output=True, text=True, timeout=timeout)
        out = p.stdout + "\n" + p.stderr
        rc = p.returncode
    except subprocess.TimeoutExpired as e:
        out = (e.stdout or b"").decode(errors="replace") + "\n" + (e.stderr or b"").decode(errors="replace") if isinstance(e.stdout, (bytes, type(None))) else str(e.stdout)
        rc = None
    wall = time.time() - t0
    res = parse_output(out, harnesses)
    for h in harnesses:
        if h not in res:
            reason = "timeout" if rc is None else "no result in Kani output (build failure or harness not found)"
            res[h] = {"status": "undecided", "reason": reason}
    return {"results": res, "wall_s": wall, "rc": rc, "cmd": " ".join(cmd), "raw": out}


def parse_output(out, harnesses):
    res = {}
    cur_by_thread = {}
    cur = None
    block = None
    lines = out.split("\n")
    # Kani prints per-thread blocks when -j > 1: "Thread N: Checking harness X..." then "Thread N: " + block
    thread = None
    blocks = []  # (harness full name, [lines])
    for line in lines:
        m = re.match(r"(?:Thread (\d+): )?Checking harness (\S+?)\.\.\.", line)
        if m:
            t = m.group(1) or "0"
            cur_by_thread[t] = m.group(2)
            if m.group(1) is None:
                cur = [m.group(2), []]
                blocks.append(cur)
            continue
        m = re.match(r"Thread (\d+):\s*$", line)
        if m:
            cur = [cur_by_thread.get(m.group(1)), []]
            blocks.append(cur)
            continue
        if cur is not None:
            cur[1].append(line)
    for name, bl in blocks:
        if name is None:
            continue
        short = name.split("::")[-1]
        key = None
        for h in harnesses:
            if h == name or h == short or name.endswith("::" + h):
                key = h
        if key is None:
            continue
        text = "\n".join(bl)
        # the block of the next harness on the same thread may follow; cut at "Verification Time"
        m = re.search(r"Verification Time: ([0-9.]+)s", text)
        tsec = float(m.group(1)) if m else None
        if m:
            text = text[:m.end()]
        r = {"time_s": tsec}
        m = re.search(r"\*\* (\d+) of (\d+) failed", text)
        if m:
            r["failed"] = int(m.group(1))
            r["checks"] = int(m.group(2))
        m = re.search(r"\*\* (\d+) of (\d+) cover properties satisfied", text)
        if m:
            r["covers_sat"] = int(m.group(1))
            r["covers"] = int(m.group(2))
        fc = re.findall(r"Failed Checks: (.*)\n\s*File: \"([^\"]*)\", line (\d+), in (\S+)", text)
        r["failed_checks"] = [f"{a} [{os.path.relpath(b, '/') if b.startswith('/') else b}:{c} in {d_}]" for a, b, c, d_ in fc]
        unwind_fail = any("unwinding assertion" in a for a, _, _, _ in fc)
        other_fail = [a for a, _, _, _ in fc if "unwinding assertion" not in a]
        if "VERIFICATION:- SUCCESSFUL" in text:
            r["status"] = "success"
            if r.get("covers") and r.get("covers_sat", 0) < r["covers"]:
                r["status"] = "undecided"
                r["reason"] = "cover property unreachable/unsatisfied (vacuity guard)"
        elif "VERIFICATION:- FAILED" in text:
            if other_fail:
                r["status"] = "failed"
            elif unwind_fail:
                r["status"] = "undecided"
                r["reason"] = "unwinding assertion failed (bound too small for this input space)"
            else:
                r["status"] = "undecided"
                r["reason"] = "FAILED without a failed check line (CBMC error?)"
        else:
            r["status"] = "undecided"
            r["reason"] = "no verdict (crash, out of memory or timeout)"
        r["raw"] = text[-3000:]
        res[key] = r
    return res


def extract_playback_tests(raw):
    """Concrete playback unit tests printed by Kani, excluding those generated for cover properties."""
    tests = []
    for m in re.finditer(r"```\n(.*?)```", raw, re.S):
        body = m.group(1)
        if "kani::concrete_playback_run" not in body:
            continue
        chk = re.search(r"Check for `(\w+)`: \"(.*)\"", body)
        # tests generated for cover properties are kept as candidates: only a natively failing test counts
        name = re.search(r"fn (kani_concrete_playback_\w+)", body).group(1)
        code = body[body.index("#[test]"):]
        tests.append({"name": name, "check": chk.group(2) if chk else None, "check_kind": chk.group(1) if chk else None, "code": code})
    return tests


def native_playback(group, tests, timeout=1800):
    """Re-execute Kani's concrete values natively against the real crate (cargo kani playback)."""
    d = prepare(group)
    env = dict(os.environ)
    env["CARGO_NET_OFFLINE"] = "true"
    env["RUST_BACKTRACE"] = "0"
    if group in REPO_GROUPS:
        # in-crate harnesses: the generated tests are included by the harness file itself (same module as the harness),
        # the crate's own test target is built with the feature set below and only the playback tests are run
        pg = os.path.join(VERIF, "kani", "incrate", "gen", group + ".rs")
        placeholder = "// generated at run time by khlib.native_playback (concrete playback tests of a failed harness); empty otherwise\n"
        src = ("#[allow(unused_imports)]\nmod playback_gen {\n    use super::*;\n    use std::vec;\n    use std::vec::Vec;\n"
               + "\n".join(t["code"] for t in tests) + "\n}\n")
        env["CARGO_TARGET_DIR"] = os.path.join(BUILD, "kani-repo-pb")
        cmd = ["cargo", "kani", "playback", "-Z", "concrete-playback", "--features", ",".join(REPO_GROUP_TEST_FEATURES[group]),
               "--lib", "--", "kani_concrete_playback"]
    else:
        lib = open(os.path.join(d, "src", "lib.rs")).read()
        mods = [m for m in re.findall(r"^\s*(?:pub )?mod (\w+);", lib, re.M) if m != "playback_gen"]
        pg = os.path.join(d, "src", "playback_gen.rs")
        placeholder = "// generated at run time by khlib.native_playback\n"
        src = "#![allow(unused_imports)]\n" + "".join(f"use crate::{m}::*;\n" for m in mods)
        src += "\n".join(t["code"] for t in tests)
        env["CARGO_TARGET_DIR"] = os.path.join(BUILD, "kani-" + group + "-pb")
        cmd = ["cargo", "kani", "playback", "-Z", "concrete-playback", "--", "kani_concrete_playback"]
    try:
        open(pg, "w").write(src)
        p = subprocess.run(cmd, cwd=d, env=env, capture_output=True, text=True, timeout=timeout)
        out = p.stdout + "\n" + p.stderr
    except subprocess.TimeoutExpired:
        out = "timeout (the replayed input does not terminate within the limit)"
        p = None
    finally:
        open(pg, "w").write(placeholder)
    res = {"ran": False, "failed_natively": False, "panics": []}
    m = re.search(r"test result: (\w+)\. (\d+) passed; (\d+) failed", out)
    if m:
        res["ran"] = True
        res["failed_natively"] = int(m.group(3)) > 0
        res["passed"] = int(m.group(2))
        res["failed"] = int(m.group(3))
    res["panics"] = re.findall(r"panicked at ([^\n]*\n[^\n]*)", out)[:6]
    res["failed_tests"] = re.findall(r"^test \S*?(kani_concrete_playback_\w+) \.\.\. FAILED", out, re.M)
    if not m:
        res["output_tail"] = out[-1500:]
    return res
