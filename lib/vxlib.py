#!/usr/bin/env python3
"""vx: Verus on mechanically extracted functions of the real source tree.

A *unit* is /verif/units/<name>/unit.vrs: a Verus source file (prelude, spec
functions, lemmas, hand-written impl headers) with `//@` directives that name
items of the real source files.  On every run the directives are replaced by
the *bytes of the real file* for that item, modified only by the closed list of
logged edits of DESIGN.md section 3.1.

Directive grammar (one per line):

  //@ source <alias> = repo:<relpath> | reg:<crate-ver>/<relpath>
  //@ item <alias>: <path> [opt ...]
        opts: ret(NAME)  mono(A=>T; B=>U)  nogenerics  nowhere  keepvis
              keepattrs  desugar(break_value)  desugar(ref_pat)  trusted
              rename(NEW)   nobody (signature only, `;` terminated -- for
              trait method declarations)
  //@ spec                      contract clauses after the signature
  //@ entry                     lines at the start of the body
  //@ exit                      lines before the closing brace of the body
  //@ loop N                    clauses between header and body of loop N
  //@ before loop N / after loop N
  //@ before "<snippet>" [#k] / after "<snippet>" [#k]
  //@| <content line>
  //@ end
"""
import hashlib
import json
import os
import re
import subprocess
import sys
import time

VERIF = os.path.dirname(os.path.dirname(os.path.abspath(__file__)))
REPO = os.environ.get("VERIF_REPO", "/repo")
EXTRACT_BIN = os.path.join(VERIF, ".build", "vxextract", "release", "vxextract")
BUILD = os.path.join(VERIF, ".build")


class Undecided(Exception):
    """Raised when the machinery cannot decide (never a violation)."""


def registry_dir():
    base = os.path.expanduser("~/.cargo/registry/src")
    for d in sorted(os.listdir(base)):
        p = os.path.join(base, d)
        if os.path.isdir(p):
            return p
    raise Undecided("cargo registry source dir not found")


def resolve_source(spec):
    if spec.startswith("repo:"):
        return os.path.join(REPO, spec[5:])
    if spec.startswith("reg:"):
        return os.path.join(registry_dir(), spec[4:])
    raise Undecided("bad source spec " + spec)


# ------------------------------------------------------------------ template

class ItemDirective:
    def __init__(self, alias, path, opts, tline):
        self.alias = alias
        self.path = path
        self.opts = opts
        self.tline = tline
        self.sections = []  # (kind, arg, [lines])

    def opt(self, name):
        for o in self.opts:
            if o == name or o.startswith(name + "("):
                return o
        return None

    def optarg(self, name):
        o = self.opt(name)
        if o and "(" in o:
            return o[o.index("(") + 1:-1]
        return None


def ws_tolerant(frm):
    """regex (bytes) that matches `frm` with any layout of white space between its tokens (so that a reformatted
    source -- a method chain broken over lines -- still matches)"""
    toks = re.findall(r"\w+|\S", frm)
    out = ""
    for i, t in enumerate(toks):
        if i:
            out += r"\s+" if (re.match(r"\w", toks[i - 1][-1]) and re.match(r"\w", t[0])) else r"\s*"
        out += re.escape(t)
    if toks and re.match(r"\w", toks[0][0]):
        out = r"\b" + out
    if toks and re.match(r"\w", toks[-1][-1]):
        out = out + r"\b"
    return out.encode()


def split_opts(s):
    # `name{{raw text}}` is the same as `name(raw text)` for text with unbalanced parentheses or spaces
    out, depth, cur = [], 0, ""
    while "{{" in s:
        a = s.index("{{")
        b = s.index("}}", a)
        head = s[:a]
        k = max(head.rfind(" "), head.rfind("\t")) + 1
        out.extend(split_opts(head[:k]))
        out.append(head[k:] + "(" + s[a + 2:b] + ")")
        s = s[b + 2:]
    for ch in s:
        if ch == "(":
            depth += 1
        if ch == ")":
            depth -= 1
        if ch.isspace() and depth == 0:
            if cur:
                out.append(cur)
            cur = ""
        else:
            cur += ch
    if cur:
        out.append(cur)
    return out


def parse_template(path):
    chunks = []  # ('text', line, tline) | ('item', ItemDirective)
    sources = {}
    meta = []
    cur = None
    sec = None
    def load(pth, depth=0):
        out = []
        with open(pth) as f:
            for n, line in enumerate(f.read().split("\n"), 1):
                m = re.match(r"\s*//@\s*include\s+(\S+)\s*$", line)
                if m:
                    if depth > 4:
                        raise Undecided("include depth")
                    inc = os.path.normpath(os.path.join(os.path.dirname(pth), m.group(1)))
                    out.extend(load(inc, depth + 1))
                else:
                    tag = n if depth == 0 else f"{os.path.basename(pth)}:{n}"
                    out.append((tag, line))
        return out
    for n, line in load(path):
        s = line.strip()
        if s.startswith("//@|"):
            if cur is None or sec is None:
                raise Undecided(f"{path}:{n}: content line outside a section")
            body = line[line.index("//@|") + 4:]
            if body.startswith(" "):
                body = body[1:]
            sec[2].append(body)
            continue
        if s.startswith("//@"):
            d = s[3:].strip()
            if d.startswith("source "):
                m = re.match(r"source\s+(\w+)\s*=\s*(\S+)", d)
                sources[m.group(1)] = m.group(2)
            elif d.startswith("unit "):
                pass
            elif re.match(r"(expect-fail|rlimit|min-functions|finding-probe)\b", d) and cur is None:
                meta.append((d.split()[0], d.split()[1:], n))
            elif d.startswith("item "):
                if cur is not None:
                    raise Undecided(f"{path}:{n}: nested item")
                m = re.match(r"item\s+(\w+)\s*:\s*(.*)$", d)
                rest = m.group(2)
                # path ends at first opt token; opts are known keywords
                toks = split_opts(rest)
                optkw = ("subst(", "optsubst(", "forexpr(", "closurepat(", "fragment(", "tailfrom(", "addgenerics(", "sigsubst(", "bound(", "attr(", "ret(", "mono(", "nogenerics", "nowhere", "keepvis", "keepattrs", "desugar(",
                         "trusted", "rename(", "nobody", "novis")
                ptoks, otoks = [], []
                for t in toks:
                    if otoks or any(t == k or (k.endswith("(") and t.startswith(k)) for k in optkw):
                        otoks.append(t)
                    else:
                        ptoks.append(t)
                cur = ItemDirective(m.group(1), " ".join(ptoks), otoks, n)
                sec = None
            elif d == "end":
                if cur is None:
                    raise Undecided(f"{path}:{n}: end without item")
                chunks.append(("item", cur))
                cur = None
                sec = None
            elif cur is not None:
                m = re.match(r'(spec|entry|exit)$', d)
                if m:
                    sec = (m.group(1), None, [])
                    cur.sections.append(sec)
                    continue
                m = re.match(r'(before |after |in )?loop\s+(\d+)$', d)
                if m:
                    kind = (m.group(1) or "").strip() + "loop"
                    sec = (kind, int(m.group(2)), [])
                    cur.sections.append(sec)
                    continue
                m = re.match(r'(before|after)\s+"(.*)"\s*(#(-?\d+))?$', d)
                if m:
                    sec = (m.group(1) + "anchor", (m.group(2), int(m.group(4) or 0)), [])
                    cur.sections.append(sec)
                    continue
                raise Undecided(f"{path}:{n}: unknown directive `{d}`")
            else:
                raise Undecided(f"{path}:{n}: unknown directive `{d}`")
            continue
        if cur is not None:
            if s == "":
                continue
            raise Undecided(f"{path}:{n}: plain text inside item directive")
        chunks.append(("text", line, n))
    if cur is not None:
        raise Undecided(f"{path}: unterminated item at line {cur.tline}")
    return chunks, sources, meta


# ------------------------------------------------------------------ extraction

def run_extract(file, paths, mono_names):
    if not os.path.exists(EXTRACT_BIN):
        raise Undecided("vxextract not built (run ./setup.sh)")
    cmd = [EXTRACT_BIN, file]
    if mono_names:
        cmd.append("--mono=" + ",".join(sorted(mono_names)))
    cmd += paths
    p = subprocess.run(cmd, capture_output=True, text=True)
    if p.returncode != 0:
        raise Undecided(f"vxextract failed on {file}: {p.stderr[:500]}")
    j = json.loads(p.stdout)
    if "error" in j:
        raise Undecided(j["error"])
    return j


def parse_mono(arg):
    out = {}
    if not arg:
        return out
    for part in arg.split(";"):
        part = part.strip()
        if not part:
            continue
        a, b = part.split("=>")
        out[a.strip()] = b.strip()
    return out


class Seg:
    __slots__ = ("text", "origin")

    def __init__(self, text, origin):
        self.text = text
        self.origin = origin


def assemble_item(d, info, src, srcfile_label, log):
    """Returns list of Seg for one item. `src` is bytes of the real file."""
    it = info
    start, end = it["start"], it["end"]
    edits = []  # (a, b, replacement or None, kind, order, origin)
    order = [0]

    def add(a, b, rep, kind, origin=None, prio=0):
        order[0] += 1
        edits.append((a, b, rep, kind, order[0] + prio * 100000, origin))

    kind = it["kind"]
    # DROP_ATTR
    if not d.opt("keepattrs"):
        def drop(a, b):
            m = re.match(rb"[ \t]*\n?[ \t]*", src[b:b + 200])
            add(a, b + (m.end() if m else 0), "", "DROP_ATTR")
        for a, b in it.get("attrs", []):
            drop(a, b)
        for a, b in it.get("inner_attrs", []):
            drop(a, b)
        for f in it.get("fields", []):
            for a, b in f["attrs"]:
                drop(a, b)
    if kind == "fn":
        for o in d.opts:
            if o.startswith("attr("):
                at = it["sig"][0] if it.get("vis") is None else it["vis"][0]
                add(at, at, "#[" + o[5:-1] + "] ", "INSERT_SPEC")
        if d.opt("trusted"):
            at = it["sig"][0] if it.get("vis") is None else it["vis"][0]
            add(at, at, "#[verifier::external_body] ", "TRUSTED")
    # VIS
    if not d.opt("keepvis") and kind in ("fn", "struct", "enum", "const", "static", "type", "trait"):
        novis = d.opt("novis")
        if it.get("vis") is None:
            if not novis:
                pos = it["sig"][0] if kind == "fn" else vis_insert_pos(it, src)
                add(pos, pos, "pub ", "VIS")
        else:
            a, b = it["vis"]
            if novis:
                add(a, b, "", "VIS")
            elif src[a:b] != b"pub":
                add(a, b, "pub", "VIS")
        for f in it.get("fields", []):
            if f["vis"] is None:
                add(f["start"], f["start"], "pub ", "VIS")
            elif src[f["vis"][0]:f["vis"][1]] != b"pub":
                add(f["vis"][0], f["vis"][1], "pub", "VIS")
    # MONO
    mono = parse_mono(d.optarg("mono"))
    recv = None
    if d.opt("desugar(mut_self)"):
        # `fn f(mut self, ..)` -> `fn f(mut self_: Self, ..)` and every `self` in the body -> `self_`
        # (Verus: "mut self" unsupported; alpha-renaming of the receiver)
        ps = it.get("params", [])
        if not ps or not ps[0]["self"] or not src[ps[0]["span"][0]:ps[0]["span"][1]].decode().replace(" ", "") == "mutself":
            raise Undecided(f"{d.path}: desugar(mut_self) but the receiver is not `mut self`")
        recv = ps[0]["span"]
        add(recv[0], recv[1], "mut self_: Self", "DESUGAR_MUT_SELF")
    mut_self_let = False
    if d.opt("desugar(mut_self_let)"):
        # `fn f(mut self, ..) { body }` -> `fn f(self, ..) { let mut self_ = self; body[self := self_] }`: the function stays a
        # method (extracted callers use method-call syntax), the mutable local is what `mut self` declares
        ps = it.get("params", [])
        if not ps or not ps[0]["self"] or not src[ps[0]["span"][0]:ps[0]["span"][1]].decode().replace(" ", "") == "mutself":
            raise Undecided(f"{d.path}: desugar(mut_self_let) but the receiver is not `mut self`")
        recv = ps[0]["span"]
        add(recv[0], recv[1], "self", "DESUGAR_MUT_SELF")
        mut_self_let = True
    for o in d.opts:
        if o.startswith("subst(") or o.startswith("optsubst("):
            # textual type substitution anywhere in the item (a generic instance replaced by its prelude model);
            # optsubst: the instance may be absent (nothing to replace then)
            optional = o.startswith("optsubst(")
            body_ = o[(9 if optional else 6):-1]
            # `frm ===> to` for text that itself contains `=>` (match arms); otherwise `frm => to`
            frm, to = [x.strip() for x in (body_.split("===>") if "===>" in body_ else body_.split("=>"))]
            hits = list(re.finditer(ws_tolerant(frm), src[start:end]))
            if not hits and optional:
                continue
            if not hits:
                raise Undecided(f"{d.path}: subst: `{frm}` not found -- anchor lost")
            for m_ in hits:
                add(start + m_.start(), start + m_.end(), to, "MONO")
    for o in d.opts:
        if o.startswith("param("):
            # `param(K=>name)`: the contract talks about the K-th parameter (0 = the receiver) under the name `name`; if the
            # source calls it something else (a harmless rename, e.g. `_compress` for an unused parameter), the identifier is
            # alpha-renamed in the extracted text (PARAM_NAME) instead of losing the unit
            k_, newname = [x.strip() for x in o[6:-1].split("=>")]
            ps = it.get("params", [])
            if int(k_) >= len(ps):
                raise Undecided(f"{d.path}: param({k_}=>{newname}): the function has only {len(ps)} parameters -- anchor lost")
            sp = ps[int(k_)]["span"]
            m_ = re.match(rb"\s*(mut\s+)?([A-Za-z_]\w*)\s*:", src[sp[0]:sp[1]])
            if not m_:
                raise Undecided(f"{d.path}: param({k_}=>{newname}): parameter is not a plain identifier")
            oldname = m_.group(2).decode()
            if oldname != newname:
                for h_ in re.finditer(rb"(?<![\.\w])" + re.escape(oldname.encode()) + rb"\b", src[start:end]):
                    add(start + h_.start(), start + h_.end(), newname, "PARAM_NAME")
    if d.opt("desugar(debug_assert)"):
        # `debug_assert!(c)` -> `debug_assert_holds(c)`: the debug-build assertion becomes an obligation (the unit's
        # prelude declares `fn debug_assert_holds(c: bool) requires c`); Verus has no `debug_assert!`
        for m_ in re.finditer(rb"\bdebug_assert!", src[start:end]):
            add(start + m_.start(), start + m_.end(), "debug_assert_holds", "DEBUG_ASSERT_AS_OBLIGATION")
    for o in d.opts:
        if o.startswith("closurepat("):
            # `|(a, b)| { body }` -> `|p: T| { let (a, b) = p; body }` (Verus: closure parameters must be plain variables)
            frm, to = [x.strip() for x in o[11:-1].split("=>")]
            hits = list(re.finditer(rb"\|" + re.escape(frm.encode()) + rb"\|\s*\{", src[start:end]))
            if len(hits) != 1:
                raise Undecided(f"{d.path}: closurepat: closure `|{frm}| {{` found {len(hits)} times -- anchor lost")
            m_ = hits[0]
            ident = to.split(":")[0].strip()
            add(start + m_.start() + 1, start + m_.start() + 1 + len(frm.encode()), to, "DESUGAR_CLOSURE_PAT")
            add(start + m_.end(), start + m_.end(), f" let {frm} = {ident};", "DESUGAR_CLOSURE_PAT")
    # generic parameters that are being substituted are removed from the parameter list
    gp = it.get("gparams")
    gp_removed = []
    if gp and gp["params"] and not d.opt("nogenerics"):
        ps = gp["params"]
        keep = [p_ for p_ in ps if p_["name"] not in mono]
        if len(keep) < len(ps):
            if not keep:
                add(gp["lt"], gp["gt"], "", "MONO")
                gp_removed.append((gp["lt"], gp["gt"]))
            else:
                for i, p_ in enumerate(ps):
                    if p_["name"] in mono:
                        if i + 1 < len(ps):
                            a_, b_ = p_["span"][0], ps[i + 1]["span"][0]
                        else:
                            # last parameter: also eat the comma before it
                            a_, b_ = ps[i - 1]["span"][1], p_["span"][1]
                            while gp_removed and gp_removed[-1][1] > a_:
                                a_ = gp_removed[-1][1]
                        add(a_, b_, "", "MONO")
                        gp_removed.append((a_, b_))
    for name, a, b in it.get("idents", []):
        if any(x <= a and b <= y for x, y in gp_removed):
            continue
        if name == "self" and recv is not None:
            if not (recv[0] <= a < recv[1]):
                add(a, b, "self_", "DESUGAR_MUT_SELF")
        elif name in mono:
            add(a, b, mono[name], "MONO")
    if kind == "fn":
        if d.opt("rename"):
            # the fn name token is the first occurrence of the name after `fn`
            sig_a, sig_b = it["sig"]
            m = re.search(rb"\bfn\s+(" + re.escape(it["name"].encode()) + rb")\b", src[sig_a:sig_b])
            add(sig_a + m.start(1), sig_a + m.end(1), d.optarg("rename"), "RENAME")
        for o in d.opts:
            if o.startswith("fragment("):
                # FRAGMENT: keep the first K top-level statements, replace the rest of the body by the given text
                # (a call to a prelude stub whose `requires` is the contract at the cut). The dropped statements are logged.
                k_, rep_ = o[9:-1].split("=>", 1)
                k_ = int(k_)
                st = it.get("stmts", [])
                if k_ >= len(st) or k_ < 1:
                    raise Undecided(f"{d.path}: fragment({k_}): function has {len(st)} statements -- anchor lost")
                add(st[k_][0], it["body_close"], rep_.strip() + "\n", "FRAGMENT")
        for o in d.opts:
            if o.startswith("tailfrom("):
                # FRAGMENT, second form (TAIL): the function is verified from the first top-level statement whose text
                # starts with the given snippet; the statements before it are replaced by the given text, which reads the
                # values they compute from a prelude model (so the contract is about what the function does *after* that
                # point, for any values of those locals). The dropped statements are logged.
                snip_, rep_ = o[9:-1].split("=>", 1)
                snip_ = snip_.strip().encode()
                st = it.get("stmts", [])
                hit = [x for x in st if re.match(ws_tolerant(snip_.decode()), src[x[0]:x[1]])]
                if len(hit) != 1 or hit[0] == st[0]:
                    raise Undecided(f"{d.path}: tailfrom: {len(hit)} top-level statements start with `{snip_.decode()}` -- anchor lost")
                add(st[0][0], hit[0][0], rep_.strip() + "\n", "FRAGMENT")
        for o in d.opts:
            if o.startswith("addgenerics("):
                # generic parameters of the dropped impl header are moved onto the function (IMPL_HEADER rule)
                if it.get("gparams") and it["gparams"]["params"] and not d.opt("nogenerics"):
                    raise Undecided(f"{d.path}: addgenerics on a function that already has generics")
                sig_a, sig_b = it["sig"]
                m_ = re.search(rb"\bfn\s+" + re.escape(it["name"].encode()) + rb"\b", src[sig_a:sig_b])
                add(sig_a + m_.end(), sig_a + m_.end(), o[12:-1], "IMPL_HEADER")
        for o in d.opts:
            if o.startswith("sigsubst("):
                # textual substitution inside the signature (associated types of a dropped trait header)
                frm, to = [x.strip() for x in o[9:-1].split("=>")]
                sp = it["sig"]
                hits = list(re.finditer(re.escape(frm.encode()), src[sp[0]:sp[1]]))
                if not hits:
                    raise Undecided(f"{d.path}: sigsubst: `{frm}` not found in the signature -- anchor lost")
                for m_ in hits:
                    add(sp[0] + m_.start(), sp[0] + m_.end(), to, "MONO")
        for o in d.opts:
            if o.startswith("bound("):
                frm, to = [x.strip() for x in o[6:-1].split("=>")]
                for key in ("generics", "where"):
                    sp = it.get(key)
                    if not sp:
                        continue
                    if (key == "generics" and d.opt("nogenerics")) or (key == "where" and d.opt("nowhere")):
                        continue
                    for m_ in re.finditer(re.escape(frm.encode()), src[sp[0]:sp[1]]):
                        add(sp[0] + m_.start(), sp[0] + m_.end(), to, "BOUND")
        if d.opt("nogenerics") and it.get("generics"):
            a, b = it["generics"]
            add(a, b, "", "MONO")
        if d.opt("nowhere") and it.get("where"):
            a, b = it["where"]
            add(a, b, "", "MONO")
        rn = d.optarg("ret")
        if rn:
            if it["ret"] is None:
                raise Undecided(f"{d.path}: ret() given but function has no return type")
            a, b = it["ret"]
            add(a, a, f"({rn}: ", "INSERT_SPEC")
            add(b, b, ")", "INSERT_SPEC")
        bo, bc = it["body_open"], it["body_close"]
        if mut_self_let:
            add(bo + 1, bo + 1, " let mut self_ = self;", "DESUGAR_MUT_SELF")
        if d.opt("nobody"):
            if bo >= 0:
                add(bo, end, ";", "NOBODY")
        for si, (skind, arg, lines) in enumerate(d.sections):
            def mk(lines=lines, skind=skind, arg=arg):
                segs = []
                for li, l in enumerate(lines):
                    segs.append(Seg(l + "\n", ("clause", d.path, section_label(skind, arg), li, l.strip())))
                return segs
            if not lines:
                continue
            if skind == "spec":
                pos = bo if bo >= 0 else end - 1 if src[end - 1:end] == b";" else end
                if d.opt("nobody") and bo >= 0:
                    pos = bo
                add(pos, pos, [Seg("\n", None)] + mk(), "INSERT_SPEC")
            elif skind == "entry":
                add(bo + 1, bo + 1, [Seg("\n", None)] + mk(), "INSERT_SPEC")
            elif skind == "exit":
                add(bc, bc, [Seg("\n", None)] + mk(), "INSERT_SPEC")
            elif skind in ("loop", "beforeloop", "afterloop", "inloop"):
                loops = it["loops"]
                if len(loops) == 0:
                    # the function has no loop at all any more: loop clauses have nothing to attach to and straight-line
                    # code needs none; the function is verified against its unchanged contract without them
                    log.append({"item": d.path, "file": srcfile_label, "kind": "LOOP_GONE", "at": [bo, bo],
                                "before": "", "after": "", "note": f"clauses of `{section_label(skind, arg)}` dropped: the function has no loops"})
                    continue
                if arg >= len(loops):
                    raise Undecided(f"{d.path}: loop ordinal {arg} not found (function has {len(loops)} loops) -- anchor lost")
                lp = loops[arg]
                if skind == "loop":
                    add(lp["body_open"], lp["body_open"], [Seg("\n", None)] + mk(), "INSERT_SPEC")
                elif skind == "inloop":
                    add(lp["body_open"] + 1, lp["body_open"] + 1, [Seg("\n", None)] + mk(), "INSERT_SPEC")
                elif skind == "beforeloop":
                    # before the statement containing the loop: if it is `let x = loop`, go to the let
                    pos = lp["start"]
                    for ll in it["let_loops"]:
                        if ll["loop"][0] == lp["start"]:
                            pos = ll["local"][0]
                    add(pos, pos, mk() , "INSERT_SPEC")
                else:
                    pos = lp["body_close"] + 1
                    m = re.match(rb"\s*;", src[pos:pos + 8])
                    if m:
                        pos += m.end()
                    add(pos, pos, [Seg("\n", None)] + mk(), "INSERT_SPEC")
            elif skind in ("beforeanchor", "afteranchor"):
                snippet, k = arg
                body = src[start:end]
                idxs = [m.start() for m in re.finditer(re.escape(snippet.encode()), body)]
                if k < 0:
                    k = len(idxs) + k
                if k >= len(idxs) or k < 0:
                    raise Undecided(f"{d.path}: anchor \"{snippet}\"#{k} not found -- anchor lost")
                pos = start + idxs[k]
                if skind == "afteranchor":
                    pos += len(snippet.encode())
                    add(pos, pos, [Seg("\n", None)] + mk(), "INSERT_SPEC")
                else:
                    add(pos, pos, mk(), "INSERT_SPEC")
        # desugarings
        for o in d.opts:
            if o.startswith("desugar(break_value"):
                bv_types = {}
                if ":" in o:
                    for part in o[o.index(":") + 1:-1].split(","):
                        k_, v_ = part.split("=")
                        bv_types[k_.strip()] = v_.strip()
                if not it["let_loops"]:
                    continue  # nothing to desugar: the construct is gone from the source, the text is taken as it is
                for ll in it["let_loops"]:
                    ls, le = ll["local"]
                    ps, pe = ll["pat"]
                    lps, lpe = ll["loop"]
                    pat = src[ps:pe].decode()
                    m = re.match(r"(mut\s+)?([A-Za-z_]\w*)\s*(:.*)?$", pat, re.S)
                    if not m:
                        raise Undecided(f"{d.path}: break_value desugaring supports only identifier patterns, got `{pat}`")
                    var = m.group(2) + "__bv"
                    # `let PAT = loop {..};` -> `let VAR__bv; loop {..}; let PAT = VAR__bv;`
                    # (a fresh name, because a pattern inside the loop may shadow the original one)
                    ty = bv_types.get(m.group(2)) or (m.group(3)[1:].strip() if m.group(3) else None)
                    add(ls, lps, "let " + var + (": " + ty if ty else "") + "; ", "DESUGAR_BREAK_VALUE")
                    add(le, le, " let " + pat + " = " + var + ";", "DESUGAR_BREAK_VALUE", prio=-1)
                    for br_ in ll["breaks"]:
                        if br_["value"] is None:
                            continue
                        bs, be = br_["span"]
                        vs, ve = br_["value"]
                        add(bs, vs, "{ " + var + " = ", "DESUGAR_BREAK_VALUE")
                        if ve != be:
                            add(ve, be, "", "DESUGAR_BREAK_VALUE")
                        add(be, be, "; break; }", "DESUGAR_BREAK_VALUE")
            elif o == "desugar(for_next)":
                # `for PAT in EXPR { BODY }` -> `{ let mut iter__k = EXPR; loop { match iter__k.next() { None => { break; }
                # Some(PAT) => { BODY } } } }` -- the expansion the compiler itself performs, except that EXPR is used as
                # the iterator directly (IntoIterator::into_iter is the identity on iterators); Verus has no `for` over
                # iterators it has no specification for. Loop clauses of the directive attach to the new `loop`.
                k_ = -1
                for lp in it["loops"]:
                    if lp["kind"] != "for":
                        continue
                    k_ += 1
                    lbl = ""
                    if lp.get("label"):
                        # `'l: for ..` -> `{ let mut iter__k = EXPR; 'l: loop ..` (the label moves to the new loop)
                        ml = re.match(rb"('[A-Za-z_]\w*)\s*:\s*", src[lp["start"]:lp["body_open"]])
                        if not ml:
                            raise Undecided(f"{d.path}: for_next desugaring: loop label not found")
                        lbl = ml.group(1).decode() + ": "
                    pat = src[lp["pat"][0]:lp["pat"][1]].decode()
                    expr = src[lp["expr"][0]:lp["expr"][1]].decode()
                    for o2 in d.opts:
                        # forexpr(frm=>to): the iterator expression itself is replaced by its prelude model
                        if o2.startswith("forexpr("):
                            frm, to = [x.strip() for x in o2[8:-1].split("=>")]
                            if re.fullmatch(ws_tolerant(frm), expr.strip().encode()):
                                expr = to
                    add(lp["start"], lp["body_open"], f"{{ let mut iter__{k_} = {expr}; {lbl}loop ", "DESUGAR_FOR_NEXT")
                    add(lp["body_open"] + 1, lp["body_open"] + 1,
                        f" match iter__{k_}.next() {{ None => {{ break; }} Some({pat}) => {{", "DESUGAR_FOR_NEXT", prio=-1)
                    add(lp["body_close"], lp["body_close"], " } } ", "DESUGAR_FOR_NEXT")
                    add(lp["body_close"] + 1, lp["body_close"] + 1, " }", "DESUGAR_FOR_NEXT", prio=-2)
            elif o == "desugar(async_m)":
                # DESUGAR_ASYNC, second form: `async` is removed and every `.await` becomes a call `.await_m()` of a prelude
                # model of the awaited value. The model decides what waiting means: a bare future has
                # `await_m() requires false` (waiting without a bound), a future wrapped in `timeout(..)` returns its value
                # or Elapsed. "Every wait of this function is bounded" then is a proof obligation at each await point.
                m_ = re.search(rb"\basync\s+(?=(unsafe\s+)?fn\b)", src[start:bo])
                if not m_:
                    continue
                add(start + m_.start(), start + m_.end(), "", "DESUGAR_ASYNC")
                for m_ in re.finditer(rb"\.\s*await\b", src[bo:bc]):
                    add(bo + m_.start(), bo + m_.end(), ".await_m()", "DESUGAR_ASYNC")
            elif o == "desugar(async)":
                # `async fn f(..) { .. g(..).await .. }` -> `fn f(..) { .. g(..) .. }` (DESUGAR_ASYNC): the body of an async
                # function whose awaited callees are prelude models runs to completion like sequential code as far as its
                # own locals and parameters are concerned (an await point lets *other* tasks run; it does not reorder
                # this body). What other tasks do to shared state meanwhile is outside the contract and said so where the
                # option is used.
                m_ = re.search(rb"\basync\s+(?=(unsafe\s+)?fn\b)", src[start:bo])
                if not m_:
                    continue  # not async any more: the text is taken as it is
                add(start + m_.start(), start + m_.end(), "", "DESUGAR_ASYNC")
                for m_ in re.finditer(rb"\s*\.\s*await\b", src[bo:bc]):
                    add(bo + m_.start(), bo + m_.end(), "", "DESUGAR_ASYNC")
            elif o == "desugar(with_infallible)":
                # DESUGAR_WITH_INFALLIBLE: `with_infallible(|| { A?; B?; C })` -> `{ unwrap_infallible(A); unwrap_infallible(B);
                # unwrap_infallible(C) }`. octseq's with_infallible runs the closure and unwraps a result whose error type
                # converts into Infallible; the closure captures its target by mutable reference, which Verus does not support.
                # The prelude's `unwrap_infallible(r) requires r is Ok` turns "cannot fail" into an obligation at each step, and
                # the steps run in the order written (a `?` in the closure only ever leaves it on an error). Only closures whose
                # body is a sequence of `EXPR?;` statements and a tail expression are taken; anything else is UNDECIDED.
                for m_ in re.finditer(rb"\bwith_infallible\s*\(\s*\|\|\s*\{", src[bo:bc]):
                    o0 = bo + m_.end() - 1
                    depth, k = 0, o0
                    while k < bc:
                        ch = src[k:k + 1]
                        if ch in b"{([":
                            depth += 1
                        elif ch in b"})]":
                            depth -= 1
                            if depth == 0:
                                break
                        k += 1
                    mc = re.match(rb"\s*\)", src[k + 1:bc])
                    if depth != 0 or not mc:
                        raise Undecided(f"{d.path}: with_infallible desugaring: closure body not delimited")
                    body = src[o0 + 1:k].decode()
                    if "//" in body or "/*" in body:
                        body = re.sub(r"//[^\n]*", "", body)
                    parts, depth, cur = [], 0, ""
                    for ch in body:
                        if ch in "{([":
                            depth += 1
                        elif ch in "})]":
                            depth -= 1
                        if ch == ";" and depth == 0:
                            parts.append((cur.strip(), True))
                            cur = ""
                        else:
                            cur += ch
                            if ch == "}" and depth == 0 and re.match(r"(if|match|for|while|loop|unsafe|\{)", cur.strip()):
                                raise Undecided(f"{d.path}: with_infallible desugaring: the closure has a block statement "
                                                f"(`{cur.strip()[:30]}..`): only `EXPR?;` steps and a tail expression are taken")
                    if cur.strip():
                        parts.append((cur.strip(), False))
                    outp = []
                    for txt, semi in parts:
                        if semi:
                            if not txt.endswith("?") or re.match(r"(let|return|if|match|for|while|loop)\b", txt):
                                raise Undecided(f"{d.path}: with_infallible desugaring: statement `{txt[:40]}` is not `EXPR?;`")
                            outp.append("unwrap_infallible(" + txt[:-1].rstrip() + ");")
                        else:
                            if txt.endswith("?"):
                                raise Undecided(f"{d.path}: with_infallible desugaring: tail `{txt[:40]}`")
                            outp.append("unwrap_infallible(" + txt + ")")
                    add(bo + m_.start(), k + 1 + mc.end(), "{ " + " ".join(outp) + " }", "DESUGAR_WITH_INFALLIBLE")
            elif o == "desugar(or_guard)":
                # `A | B if g => body` -> `A if g => body, B if g => body` (Verus: or-pattern with a guard unsupported)
                if not it.get("or_guards"):
                    continue  # nothing to desugar: the construct is gone from the source, the text is taken as it is
                for og in it["or_guards"]:
                    a0, a1 = og["arm"]
                    if og["comma_end"] > 0:
                        a1 = og["comma_end"]
                    g = src[og["guard"][0]:og["guard"][1]].decode()
                    body = src[og["body"][0]:og["body"][1]].decode()
                    arms = [src[x:y].decode() + " if " + g + " => " + body + "," for x, y in og["alts"]]
                    add(a0, a1, "\n".join(arms), "DESUGAR_OR_GUARD")
            elif o == "desugar(guard_wild)":
                # `match x { P if g => e1, _ => e2 }` -> `match x { P => if g { e1 } else { e2 }, _ => e2 }`
                # (Verus loses track of `*self` in a guarded arm that mutates it)
                if not it.get("guard_wilds"):
                    # nothing to desugar (the construct is gone from the source): the text is taken as it is
                    continue
                for gw in it["guard_wilds"]:
                    g = src[gw["guard"][0]:gw["guard"][1]].decode()
                    e2 = src[gw["else_body"][0]:gw["else_body"][1]].decode()
                    add(gw["if_start"], gw["guard"][1], "", "DESUGAR_GUARD_WILD")
                    add(gw["body"][0], gw["body"][0], "if " + g + " { ", "DESUGAR_GUARD_WILD")
                    add(gw["body"][1], gw["body"][1], " } else { " + e2 + " }", "DESUGAR_GUARD_WILD")
            elif o == "desugar(wild)":
                # `_` as a closure or function parameter -> a fresh identifier (Verus rejects `_` parameters)
                if not it.get("wilds"):
                    continue  # nothing to desugar: the construct is gone from the source, the text is taken as it is
                for k_, (a, b) in enumerate(it["wilds"]):
                    add(a, b, f"_w{k_}", "DESUGAR_WILD_PARAM")
            elif o == "desugar(ref_pat)":
                if not it["ref_pats"]:
                    continue  # nothing to desugar: the construct is gone from the source, the text is taken as it is
                for rp in it["ref_pats"]:
                    if rp.get("guard"):
                        raise Undecided(f"{d.path}: ref pattern in a guarded arm is outside the desugaring rule")
                    a, b = rp["span"]
                    x = rp["ident"]
                    add(a, b, x + "__r", "DESUGAR_REF_PAT")
                    sa, sb = rp["scope"]
                    mut = "mut " if rp.get("mut") else ""
                    if rp["scope_is_block"]:
                        add(sa + 1, sa + 1, f" let {mut}{x} = *{x}__r;", "DESUGAR_REF_PAT")
                    else:
                        add(sa, sa, f"{{ let {mut}{x} = *{x}__r; ", "DESUGAR_REF_PAT")
                        add(sb, sb, " }", "DESUGAR_REF_PAT")
    elif d.sections:
        raise Undecided(f"{d.path}: sections on a non-fn item")

    # an edit that lies inside a larger replaced span is subsumed by it (e.g. MONO inside a dropped where clause)
    big = [(e[0], e[1], e[4]) for e in edits if e[1] > e[0] and ((e[3] in ("MONO", "DROP_ATTR", "NOBODY") and not e[2]) or e[3] == "FRAGMENT")]
    def subsumed(e):
        for a, b, o in big:
            if o != e[4] and a <= e[0] and e[1] <= b and e[0] < b and not (e[0] == e[1] == a) and (e[1] - e[0]) < (b - a):
                return True
        return False
    edits = [e for e in edits if not subsumed(e)]
    # sort and apply
    edits.sort(key=lambda e: (e[0], 0 if e[0] == e[1] else 1, e[4]))
    # check overlaps
    segs = []
    pos = start
    for a, b, rep, k, _o, _orig in edits:
        if a < pos:
            raise Undecided(f"{d.path}: overlapping edits at byte {a} ({k})")
        if a > pos:
            segs.append(Seg(src[pos:a].decode(), ("src", srcfile_label, pos)))
        if isinstance(rep, list):
            segs.extend(rep)
            reptext = "".join(s.text for s in rep)
        else:
            if rep:
                segs.append(Seg(rep, ("edit", k, d.path)))
            reptext = rep
        log.append({"item": d.path, "file": srcfile_label, "kind": k, "at": [a, b],
                    "before": src[a:b].decode(), "after": reptext if len(reptext) < 400 else reptext[:400] + "…"})
        pos = b
    if pos < end:
        segs.append(Seg(src[pos:end].decode(), ("src", srcfile_label, pos)))
    # round-trip self check: removing every edit gives back the original bytes
    recon = []
    pos = start
    for a, b, rep, k, _o, _orig in edits:
        recon.append(src[pos:a])
        recon.append(src[a:b])
        pos = b
    recon.append(src[pos:end])
    if b"".join(recon) != src[start:end]:
        raise Undecided(f"{d.path}: round-trip check failed")
    return segs


def vis_insert_pos(it, src):
    # position after attributes: first byte of the item proper
    pos = it["start"]
    for a, b in it.get("attrs", []):
        pos = max(pos, b)
    m = re.match(rb"\s*", src[pos:])
    return pos + m.end()


def section_label(kind, arg):
    if kind in ("spec", "entry", "exit"):
        return kind
    if kind == "loop":
        return f"loop{arg}"
    if kind == "beforeloop":
        return f"before-loop{arg}"
    if kind == "inloop":
        return f"in-loop{arg}"
    if kind == "afterloop":
        return f"after-loop{arg}"
    return f"{kind}:{arg[0]}#{arg[1]}"


class Assembled:
    def __init__(self):
        self.text = ""
        self.segmap = []   # (out_start, out_end, origin)
        self.edit_log = []
        self.items = []    # dict(path, file, sha256, kind, clauses)
        self.template = None
        self.src_cache = {}

    def origin_at(self, line, col):
        """1-based line/col of the assembled text -> origin tuple"""
        off = self.line_offsets[line - 1] + (col - 1)
        return self.origin_at_offset(off)

    def origin_at_offset(self, off):
        lo, hi = 0, len(self.segmap) - 1
        while lo <= hi:
            mid = (lo + hi) // 2
            a, b, o = self.segmap[mid]
            if off < a:
                hi = mid - 1
            elif off >= b:
                lo = mid + 1
            else:
                if o and o[0] == "src":
                    # compute source line
                    src = self.src_cache[o[1]]
                    srcoff = o[2] + len(self.text[a:off].encode())
                    line = src.count(b"\n", 0, srcoff) + 1
                    return ("src", o[1], line, self.item_at(mid))
                if o and o[0] == "clause":
                    return o
                if o and o[0] == "template":
                    return o
                return ("edit",) + tuple(o[1:]) if o else ("glue", self.item_at(mid))
        return None

    def item_at(self, idx):
        # nearest enclosing item for a segmap index
        for (a, b, path) in self.item_ranges:
            if a <= idx < b:
                return path
        return None


FN_HEAD_RE = re.compile(r"^\s*(?:pub\s+)?(?:(proof|exec)\s+)?fn\s+([A-Za-z_]\w*)")


def assemble(unit_dir, mutate=None, canary=False):
    """canary: inject `assert(false)` at the entry of every exec/proof function (vacuity guard);
    the names of the functions that received one are in out.canaried."""
    tpath = os.path.join(unit_dir, "unit.vrs")
    chunks, sources, meta = parse_template(tpath)
    # group item directives by source file
    by_file = {}
    for c in chunks:
        if c[0] == "item":
            d = c[1]
            if d.alias not in sources:
                raise Undecided(f"{tpath}:{d.tline}: unknown source alias {d.alias}")
            by_file.setdefault(d.alias, []).append(d)
    infos = {}
    out = Assembled()
    out.template = tpath
    out.meta = meta
    for alias, ds in by_file.items():
        f = resolve_source(sources[alias])
        if not os.path.exists(f):
            raise Undecided(f"source file {f} missing -- anchor lost")
        mono_names = set()
        for d in ds:
            mono_names.update(parse_mono(d.optarg("mono")).keys())
            if d.opt("desugar(mut_self)") or d.opt("desugar(mut_self_let)"):
                mono_names.add("self")
        paths = []
        for d in ds:
            if d.path not in paths:
                paths.append(d.path)
        j = run_extract(f, paths, mono_names)
        with open(f, "rb") as fh:
            out.src_cache[sources[alias]] = fh.read()
        for e in j["items"]:
            if "error" in e:
                raise Undecided(f"{sources[alias]}: {e['error']} -- anchor lost")
            infos[(alias, e["path"])] = e["item"]
    segs = []
    item_ranges = []
    out.canaried = []
    pending = None  # (kind, name) of a template fn whose body-opening brace has not been seen yet
    skip_next_fn = False
    for c in chunks:
        if c[0] == "text":
            line = c[1]
            if canary:
                m = FN_HEAD_RE.match(line)
                if "external_body" in line:
                    skip_next_fn = True
                if m and skip_next_fn:
                    skip_next_fn = False
                    m = None
                if m and " spec fn " not in (" " + line) and not line.rstrip().endswith(";") and not line.rstrip().endswith("}"):
                    pending = (m.group(1) or "exec", m.group(2))
                    if line.rstrip().endswith("{"):
                        line = line + (" assert(false);" if pending[0] == "proof" else " proof { assert(false); }")
                        out.canaried.append(pending[1])
                        pending = None
                elif pending and line.rstrip().endswith(";"):
                    pending = None  # a declaration without body (trait method)
                elif pending and line.strip() == "{":
                    line = line + (" assert(false);" if pending[0] == "proof" else " proof { assert(false); }")
                    out.canaried.append(pending[1])
                    pending = None
            segs.append(Seg(line + "\n", ("template", c[2])))
        else:
            d = c[1]
            if canary and infos[(d.alias, d.path)]["kind"] == "fn" and not d.opt("trusted") and not d.opt("nobody"):
                import copy
                d = copy.copy(d)
                d.sections = list(d.sections) + [("entry", None, ["proof { assert(false); }"])]
                nm = infos[(d.alias, d.path)]["name"]
                if d.optarg("rename"):
                    nm = d.optarg("rename")
                out.canaried.append(nm)
            info = infos[(d.alias, d.path)]
            label = sources[d.alias]
            src = out.src_cache[label]
            isegs = assemble_item(d, info, src, label, out.edit_log)
            a = len(segs)
            segs.extend(isegs)
            segs.append(Seg("\n", None))
            item_ranges.append((a, len(segs), d.path))
            body = src[info["start"]:info["end"]]
            out.items.append({
                "path": d.path, "file": label, "kind": info["kind"],
                "sha256": hashlib.sha256(body).hexdigest()[:16],
                "src_lines": [src.count(b"\n", 0, info["start"]) + 1, src.count(b"\n", 0, info["end"]) + 1],
                "clauses": sum(len(s[2]) for s in d.sections if s[0] in ("spec", "loop")),
                "trusted": bool(d.opt("trusted")),
                "under_contract": info["kind"] == "fn" and not d.opt("trusted") and not d.opt("nobody"),
                "opts": d.opts,
            })
    out.item_ranges = item_ranges
    pos = 0
    parts = []
    for s in segs:
        parts.append(s.text)
        n = len(s.text)
        out.segmap.append((pos, pos + n, s.origin))
        pos += n
    out.text = "".join(parts)
    # offsets are in characters; Verus reports columns in characters as well
    offs = [0]
    for i, ch in enumerate(out.text):
        if ch == "\n":
            offs.append(i + 1)
    out.line_offsets = offs
    return out


# ------------------------------------------------------------------ running Verus

VERIF_FAIL_PATTERNS = [
    r"^(postcondition|precondition|invariant|decreases|loop ensures|loop invariant)\b.*not satisfied",
    r"^assertion failed",
    r"^precondition not met",
    r"^possible (arithmetic underflow/overflow|division by zero|bit shift underflow/overflow)",
    r"^(unreachable|panic)",
    r"^could not (prove|show) termination",
    r"^unable to prove (post-condition|pre-condition|postcondition|precondition) of closure",
    r"^recommendation not met",
]
RLIMIT_PATTERNS = [r"[Rr]esource limit", r"rlimit", r"timed? ?out", r"unknown"]


def run_verus(path, rlimit=None, seed=None, extra=None, timeout=1800, only_fn=None):
    cmd = ["verus", path, "--output-json", "--time", "--multiple-errors", "20", "--error-format=json",
           "--no-report-long-running"]
    if rlimit:
        cmd += ["--rlimit", str(rlimit)]
    if seed is not None:
        cmd += ["--smt-option", f"smt.random_seed={seed}"]
    if only_fn:
        cmd += ["--verify-root", "--verify-function", only_fn]
    if extra:
        cmd += extra
    t0 = time.time()
    try:
        p = subprocess.run(cmd, capture_output=True, text=True, timeout=timeout, cwd=os.path.dirname(path))
    except subprocess.TimeoutExpired:
        return {"timeout": True, "wall_s": time.time() - t0, "cmd": cmd, "diags": [], "json": None, "rc": None}
    wall = time.time() - t0
    js = None
    try:
        # stdout contains the JSON object (possibly preceded by notes)
        i = p.stdout.index("{")
        js = json.loads(p.stdout[i:])
    except Exception:
        js = None
    diags = []
    other_stderr = []
    for line in p.stderr.split("\n"):
        line = line.strip()
        if line.startswith("{"):
            try:
                dj = json.loads(line)
                if dj.get("$message_type") == "diagnostic":
                    diags.append(dj)
                continue
            except Exception:
                pass
        if line:
            other_stderr.append(line)
    return {"timeout": False, "wall_s": wall, "cmd": cmd, "diags": diags, "json": js, "rc": p.returncode,
            "stderr": "\n".join(other_stderr)[-4000:]}


def function_breakdown(js):
    out = []
    if not js:
        return out
    try:
        for m in js["times-ms"]["smt"]["smt-run-module-times"]:
            for f in m.get("function-breakdown", []):
                out.append(f)
    except Exception:
        pass
    return out


def classify_diag(d):
    """-> 'verification' | 'rlimit' | 'other' | None (ignore)"""
    lvl = d.get("level")
    msg = d.get("message", "")
    if lvl in ("warning", "note", "help", "failure-note"):
        if lvl == "warning":
            return None
        return None
    if lvl != "error":
        return None
    if re.search(r"aborting due to|could not compile", msg):
        return None
    for p in RLIMIT_PATTERNS[:3]:
        if re.search(p, msg):
            return "rlimit"
    if d.get("code"):
        return "other"   # rustc error with a code (type error etc.)
    for p in VERIF_FAIL_PATTERNS:
        if re.search(p, msg):
            return "verification"
    return "other"
