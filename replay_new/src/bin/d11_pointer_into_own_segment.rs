//! D11 (C19, observation): a compression pointer into the segment that contains it is followed by the established
//! parser (any target before the pointer) and rejected by the new one (only targets before the segment start).
use domain::base::name::ParsedName;
use domain::new::base::name::NameBuf;
use domain::new::base::parse::SplitMessageBytes;
use octseq::parse::Parser;
fn main() {
    // 12-octet header, then at offset 12: label of length 1 containing 0x00, pointer to offset 13 (the 0x00)
    let mut msg = vec![0u8; 12];
    msg.extend_from_slice(&[0x01, 0x00, 0xC0, 0x0D]);
    let slice: &[u8] = &msg;
    let mut parser = Parser::from_ref(slice);
    parser.advance(12).unwrap();
    let old = ParsedName::parse(&mut parser);
    let new = NameBuf::split_message_bytes(&msg[12..], 0);
    println!("established parser: {:?}", old.as_ref().map(|n| n.to_string()).map_err(|e| e.to_string()));
    println!("new parser:         {:?}", new.as_ref().map(|(n, end)| (n.to_string(), *end)).map_err(|_| "ParseError"));
    if old.is_ok() != new.is_ok() { println!("DISAGREE"); std::process::exit(1); }
}
