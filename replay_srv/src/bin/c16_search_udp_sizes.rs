//! C16 -- bounded exploration of the UDP size clause on the real server stack (a counterexample finder and bounded
//! stand-in; never counted as a proved obligation): a real DgramServer on a loopback socket with the usual
//! Mandatory(Edns(service)) middleware stack, a service whose answer has 3 / 28 / 120 address records, a server limit
//! of 512 / 700 / 1232 (the default) / 4096 octets -- configured at start or by reconfiguring a running server --, and a
//! client that sends no OPT record or advertises 100 / 512 / 600 / 1000 / 1232 / 4096 octets. For every combination:
//! the response has the request's ID and question and parses completely; it is no longer than
//! min(max(512, advertised), max(512, limit)), or 512 without EDNS; TC is set exactly when records had to go.
//! (The server harness -- sockets, middleware stack, service -- follows the demonstration programs written by a
//! round-11 seeding sub-agent; the enumeration and the oracle are this check's.)
use std::process::exit;
use std::sync::atomic::{AtomicU8, Ordering};
use std::sync::Arc;
use std::time::Duration;

use domain::base::iana::{Class, Rcode};
use domain::base::{Message, MessageBuilder, Name, Rtype, Ttl};
use domain::net::server::buf::VecBufSource;
use domain::net::server::dgram::{Config, DgramServer};
use domain::net::server::message::Request;
use domain::net::server::middleware::edns::EdnsMiddlewareSvc;
use domain::net::server::middleware::mandatory::MandatoryMiddlewareSvc;
use domain::net::server::service::{CallResult, ServiceResult};
use domain::net::server::util::{mk_builder_for_target, service_fn};
use domain::rdata::A;
use tokio::net::UdpSocket;
use tokio::time::timeout;

static N_RECORDS: AtomicU8 = AtomicU8::new(28);

fn service(req: Request<Vec<u8>, ()>, _meta: ()) -> ServiceResult<Vec<u8>> {
    let builder = mk_builder_for_target();
    let mut answer = builder.start_answer(req.message(), Rcode::NOERROR)?;
    let owner: Name<Vec<u8>> = "big.example.com".parse().unwrap();
    for i in 0..N_RECORDS.load(Ordering::SeqCst) {
        answer.push((owner.clone(), Class::IN, Ttl::from_secs(60), A::from_octets(192, 0, 2, i)))?;
    }
    Ok(CallResult::new(answer.additional()))
}

fn mk_query(id: u16, edns_size: Option<u16>) -> Vec<u8> {
    let mut q = MessageBuilder::new_vec();
    q.header_mut().set_id(id);
    let mut q = q.question();
    let name: Name<Vec<u8>> = "big.example.com".parse().unwrap();
    q.push((name, Rtype::A)).unwrap();
    let mut q = q.additional();
    if let Some(size) = edns_size {
        q.opt(|opt| {
            opt.set_udp_payload_size(size);
            Ok(())
        })
        .unwrap();
    }
    q.finish()
}

async fn exchange(client: &UdpSocket, query: &[u8]) -> Result<Vec<u8>, String> {
    client.send(query).await.unwrap();
    let mut buf = vec![0u8; 65535];
    match timeout(Duration::from_secs(5), client.recv(&mut buf)).await {
        Err(_) => Err("timed out waiting for a response".into()),
        Ok(Err(e)) => Err(format!("recv error: {e}")),
        Ok(Ok(n)) => {
            buf.truncate(n);
            Ok(buf)
        }
    }
}

fn check_echo(resp: &[u8], query: &[u8]) -> Result<Message<Vec<u8>>, String> {
    let resp = Message::from_octets(resp.to_vec()).map_err(|e| format!("response unparseable: {e}"))?;
    let query = Message::from_octets(query).unwrap();
    if resp.header().id() != query.header().id() {
        return Err("response ID differs from request ID".into());
    }
    if !resp.header().qr() {
        return Err("QR not set in the response".into());
    }
    let rq = resp.sole_question().map_err(|e| format!("response question: {e}"))?;
    let qq = query.sole_question().unwrap();
    if rq.qname() != qq.qname() || rq.qtype() != qq.qtype() {
        return Err("response question differs from request".into());
    }
    let (_, answer, authority, additional) = resp.sections().map_err(|e| format!("bad section: {e}"))?;
    for section in [answer, authority, additional] {
        for rr in section {
            rr.map_err(|e| format!("bad record: {e}"))?;
        }
    }
    Ok(resp)
}

/// can two loopback sockets talk to each other here? (a sandbox without even a loopback interface makes this search
/// impossible, not the library wrong)
async fn loopback_works() -> bool {
    let Ok(a) = UdpSocket::bind("127.0.0.1:0").await else { return false };
    let Ok(b) = UdpSocket::bind("127.0.0.1:0").await else { return false };
    let (Ok(aa), Ok(ba)) = (a.local_addr(), b.local_addr()) else { return false };
    if a.connect(ba).await.is_err() || b.connect(aa).await.is_err() { return false; }
    if a.send(b"ping").await.is_err() { return false; }
    let mut buf = [0u8; 8];
    matches!(timeout(Duration::from_secs(2), b.recv(&mut buf)).await, Ok(Ok(4)))
}

async fn run() -> Result<usize, String> {
    if !loopback_works().await {
        println!("SKIPPED: no working loopback UDP in this environment; nothing explored");
        return Ok(0);
    }
    let mut cases = 0usize;
    let mut id = 1u16;
    for reconfigured in [false, true] {
        for limit in [512u16, 700, 1232, 4096] {
            let svc = service_fn(service, ());
            let svc = EdnsMiddlewareSvc::<Vec<u8>, _, ()>::new(svc);
            let svc = MandatoryMiddlewareSvc::<Vec<u8>, _, ()>::new(svc);
            let sock = UdpSocket::bind("127.0.0.1:0").await.unwrap();
            let addr = sock.local_addr().unwrap();
            let mut config = Config::new();
            config.set_max_response_size(Some(if reconfigured { 4096 } else { limit }));
            let srv = Arc::new(DgramServer::with_config(sock, VecBufSource, svc, config));
            let run_srv = srv.clone();
            let handle = tokio::spawn(async move { run_srv.run().await });
            let client = UdpSocket::bind("127.0.0.1:0").await.unwrap();
            client.connect(addr).await.unwrap();
            if reconfigured {
                // one exchange under the old limit, then lower it on the running server
                let q = mk_query(id, Some(4096));
                id = id.wrapping_add(1);
                exchange(&client, &q).await?;
                let mut config = Config::new();
                config.set_max_response_size(Some(limit));
                srv.reconfigure(config).map_err(|e| format!("reconfigure: {e}"))?;
                tokio::time::sleep(Duration::from_millis(50)).await;
            }
            for n in [3u8, 28, 120] {
                N_RECORDS.store(n, Ordering::SeqCst);
                for advertised in [None, Some(100u16), Some(512), Some(600), Some(1000), Some(1232), Some(4096)] {
                    cases += 1;
                    let query = mk_query(id, advertised);
                    id = id.wrapping_add(1);
                    let what = format!(
                        "server limit {limit}{}, client {}, answer of {n} records",
                        if reconfigured { " (reconfigured from 4096)" } else { "" },
                        match advertised { None => "without EDNS".to_string(), Some(a) => format!("advertising {a}") }
                    );
                    let resp = exchange(&client, &query).await.map_err(|e| format!("{what}: {e}"))?;
                    let msg = check_echo(&resp, &query).map_err(|e| format!("{what}: {e}"))?;
                    let allowed = match advertised {
                        None => 512usize,
                        Some(a) => std::cmp::min(std::cmp::max(512, a), std::cmp::max(512, limit)) as usize,
                    };
                    if resp.len() > allowed {
                        return Err(format!("{what}: response of {} octets, at most {allowed} allowed (TC={})", resp.len(), msg.header().tc()));
                    }
                    let full = msg.header_counts().ancount() == n as u16;
                    if full == msg.header().tc() {
                        return Err(format!("{what}: {} of {n} answer records, TC={}", msg.header_counts().ancount(), msg.header().tc()));
                    }
                    // a complete answer that fits must not be cut
                    let full_len = 12 + 21 + 31 * n as usize + if advertised.is_some() { 11 } else { 0 };
                    if full_len <= allowed && !full {
                        return Err(format!("{what}: the full answer ({full_len} octets) fits the {allowed} octets allowed but was truncated"));
                    }
                }
            }
            handle.abort();
        }
    }
    Ok(cases)
}

fn main() {
    let rt = tokio::runtime::Builder::new_multi_thread().worker_threads(2).enable_all().build().unwrap();
    let res = rt.block_on(async {
        match timeout(Duration::from_secs(120), run()).await {
            Ok(res) => res,
            Err(_) => Err("search timed out".to_string()),
        }
    });
    match res {
        Ok(n) => {
            println!("OK: {n} (limit, advertised size, answer size) combinations: responses within the size allowed, TC exactly when cut, ID and question echoed");
            exit(0);
        }
        Err(err) => {
            println!("FAIL: {err}");
            exit(1);
        }
    }
}
