//! C16 -- bounded exploration of stream framing under pipelining on the real StreamServer (loopback TCP; a
//! counterexample finder and bounded stand-in, never counted as a proved obligation): a client sends request A whole,
//! then the first k octets of the length-prefixed request B (k = 1, 2, 3, 7, half, all but one), while the service
//! holds the answer to A back or not; after A's response has been read the rest of B follows, then a third request C
//! whole. Every request must be answered exactly once, with its own ID and question, correctly framed, whatever the
//! split -- a server that loses octets of a partly received request when another event completes desynchronises the
//! stream and stops answering. (Server harness -- gated service, framing helpers -- after a round-11 seeding
//! sub-agent's demonstration program; the enumeration and the oracle are this check's.)
use std::future::Future;
use std::pin::Pin;
use std::process::exit;
use std::sync::Arc;
use std::time::Duration;

use domain::base::iana::{Class, Rcode};
use domain::base::{Message, MessageBuilder, Name, Rtype, Ttl};
use domain::net::server::buf::VecBufSource;
use domain::net::server::message::Request;
use domain::net::server::service::{CallResult, Service, ServiceResult};
use domain::net::server::stream::StreamServer;
use domain::net::server::util::mk_builder_for_target;
use domain::rdata::A;
use futures_util::stream::{once, Once};
use std::future::{ready, Ready};
use tokio::io::{AsyncReadExt, AsyncWriteExt};
use tokio::net::{TcpListener, TcpStream};
use tokio::sync::Semaphore;
use tokio::time::{sleep, timeout};

const ID_A: u16 = 0x1111;
const ID_B: u16 = 0x2222;

#[derive(Clone)]
struct GatedSvc {
    gate: Arc<Semaphore>,
}

impl Service<Vec<u8>, ()> for GatedSvc {
    type Target = Vec<u8>;
    type Stream = Once<Ready<ServiceResult<Vec<u8>>>>;
    type Future = Pin<Box<dyn Future<Output = Self::Stream> + Send>>;

    fn call(&self, request: Request<Vec<u8>, ()>) -> Self::Future {
        let gate = self.gate.clone();
        Box::pin(async move {
            if request.message().header().id() == ID_A {
                // Hold the answer to A back until the client opens the gate.
                gate.acquire().await.unwrap().forget();
            }
            let res = (|| {
                let builder = mk_builder_for_target();
                let mut answer = builder
                    .start_answer(request.message(), Rcode::NOERROR)?;
                answer.push((
                    Name::<Vec<u8>>::root(),
                    Class::IN,
                    Ttl::from_secs(60),
                    A::from_octets(192, 0, 2, 1),
                ))?;
                Ok(CallResult::new(answer.additional()))
            })();
            once(ready(res))
        })
    }
}

fn mk_query(id: u16, name: &str) -> Vec<u8> {
    let mut q = MessageBuilder::new_vec();
    q.header_mut().set_id(id);
    q.header_mut().set_rd(true);
    let mut q = q.question();
    let name: Name<Vec<u8>> = name.parse().unwrap();
    q.push((name, Rtype::A)).unwrap();
    q.finish()
}

async fn read_framed(stream: &mut TcpStream) -> Result<Vec<u8>, String> {
    let mut len = [0u8; 2];
    match timeout(Duration::from_secs(3), stream.read_exact(&mut len)).await {
        Err(_) => return Err("timed out waiting for a response".into()),
        Ok(Err(e)) => return Err(format!("read error: {e}")),
        Ok(Ok(_)) => {}
    }
    let mut buf = vec![0u8; u16::from_be_bytes(len) as usize];
    match timeout(Duration::from_secs(3), stream.read_exact(&mut buf)).await {
        Err(_) => Err("timed out in the middle of a response".into()),
        Ok(Err(e)) => Err(format!("read error: {e}")),
        Ok(Ok(_)) => Ok(buf),
    }
}

fn check(resp: &[u8], query: &[u8], what: &str) -> Result<(), String> {
    let resp = Message::from_octets(resp)
        .map_err(|e| format!("response to {what} unparseable: {e}"))?;
    let query = Message::from_octets(query).unwrap();
    if !resp.header().qr() {
        return Err(format!("response to {what} lacks QR"));
    }
    if resp.header().id() != query.header().id() {
        return Err(format!(
            "response to {what} has ID {:#x}, expected {:#x}",
            resp.header().id(),
            query.header().id()
        ));
    }
    let rq = resp.sole_question().map_err(|e| format!("{what}: {e}"))?;
    let qq = query.sole_question().unwrap();
    if rq.qname() != qq.qname() || rq.qtype() != qq.qtype() {
        return Err(format!("response to {what} has the wrong question"));
    }
    Ok(())
}

async fn loopback_works() -> bool {
    let Ok(l) = TcpListener::bind("127.0.0.1:0").await else { return false };
    let Ok(addr) = l.local_addr() else { return false };
    let acc = tokio::spawn(async move { l.accept().await.is_ok() });
    let ok = matches!(timeout(Duration::from_secs(2), TcpStream::connect(addr)).await, Ok(Ok(_)));
    ok && matches!(timeout(Duration::from_secs(2), acc).await, Ok(Ok(true)))
}

async fn scenario(split: usize, gated: bool) -> Result<(), String> {
    let gate = Arc::new(Semaphore::new(if gated { 0 } else { 1 }));
    let listener = TcpListener::bind("127.0.0.1:0").await.unwrap();
    let addr = listener.local_addr().unwrap();
    let srv = Arc::new(StreamServer::new(listener, VecBufSource, GatedSvc { gate: gate.clone() }));
    let run_srv = srv.clone();
    let handle = tokio::spawn(async move { run_srv.run().await });
    let mut stream = TcpStream::connect(addr).await.unwrap();
    stream.set_nodelay(true).unwrap();
    let query_a = mk_query(ID_A, "first.example.com");
    let query_b = mk_query(ID_B, "second.example.com");
    let query_c = mk_query(0x3333, "third.example.com");
    let frame = |q: &[u8]| { let mut f = (q.len() as u16).to_be_bytes().to_vec(); f.extend_from_slice(q); f };
    let (fa, fb, fc) = (frame(&query_a), frame(&query_b), frame(&query_c));
    let k = std::cmp::min(split, fb.len() - 1);
    stream.write_all(&fa).await.unwrap();
    sleep(Duration::from_millis(120)).await;
    stream.write_all(&fb[..k]).await.unwrap();
    sleep(Duration::from_millis(120)).await;
    if gated { gate.add_permits(1); }
    let resp_a = read_framed(&mut stream).await.map_err(|e| format!("request A: {e}"))?;
    check(&resp_a, &query_a, "A")?;
    sleep(Duration::from_millis(120)).await;
    stream.write_all(&fb[k..]).await.unwrap();
    let resp_b = read_framed(&mut stream).await.map_err(|e| format!("request B (its first {k} octets sent before A was answered): {e}"))?;
    check(&resp_b, &query_b, "B")?;
    stream.write_all(&fc).await.unwrap();
    let resp_c = read_framed(&mut stream).await.map_err(|e| format!("request C: {e}"))?;
    check(&resp_c, &query_c, "C")?;
    // nothing else may arrive: every request is answered exactly once
    let mut extra = [0u8; 1];
    if let Ok(Ok(n)) = timeout(Duration::from_millis(150), stream.read(&mut extra)).await {
        if n > 0 { return Err("more octets arrive after the three responses".into()); }
    }
    handle.abort();
    Ok(())
}

async fn run() -> Result<usize, String> {
    if !loopback_works().await {
        println!("SKIPPED: no working loopback TCP in this environment; nothing explored");
        return Ok(0);
    }
    let mut n = 0;
    for gated in [true, false] {
        for split in [1usize, 2, 3, 7, 20, 1000] {
            n += 1;
            scenario(split, gated).await.map_err(|e| format!("split after {split} octets, answer to A {}: {e}", if gated { "held back" } else { "not held back" }))?;
        }
    }
    Ok(n)
}

fn main() {
    let rt = tokio::runtime::Builder::new_multi_thread()
        .worker_threads(4)
        .enable_all()
        .build()
        .unwrap();
    let res = rt.block_on(async {
        match timeout(Duration::from_secs(120), run()).await {
            Ok(res) => res,
            Err(_) => Err("search timed out".to_string()),
        }
    });
    match res {
        Ok(n) => {
            println!("OK: {n} pipelining scenarios: every request answered once, own ID and question, framing intact");
            exit(0);
        }
        Err(err) => {
            println!("FAIL: {err}");
            exit(1);
        }
    }
}
