//! helpers shared by the TSIG replays
use domain::base::iana::Rcode;
use domain::base::message_builder::AdditionalBuilder;
use domain::base::name::Name;
use domain::base::{Message, MessageBuilder, Rtype};
use domain::rdata::A;
use domain::tsig::{Algorithm, Key, KeyName};
use std::str::FromStr;
use std::sync::Arc;

pub fn key(secret: &[u8], min: Option<usize>, sign: Option<usize>) -> Arc<Key> {
    Arc::new(Key::new(Algorithm::Sha256, secret, KeyName::from_str("demo-key.").unwrap(), min, sign).unwrap())
}
pub fn request() -> AdditionalBuilder<Vec<u8>> {
    let mut mb = MessageBuilder::new_vec();
    mb.header_mut().set_id(0x1234);
    let mut q = mb.question();
    q.push((Name::<Vec<u8>>::from_str("example.com.").unwrap(), Rtype::AXFR)).unwrap();
    q.additional()
}
pub fn answer(req: &Message<Vec<u8>>, n: u8) -> AdditionalBuilder<Vec<u8>> {
    let mut ab = MessageBuilder::new_vec().start_answer(req, Rcode::NOERROR).unwrap();
    ab.push((Name::<Vec<u8>>::from_str("example.com.").unwrap(), 30, A::from_octets(10, 0, 0, n))).unwrap();
    ab.additional()
}
