//! D9 (C11): the MAC of a BADTIME error response must be computed over the RFC 8945 4.3.3 variables with
//! Other Len = 6 and the 6-octet server time; the library fed 8 octets.
use domain::base::iana::{Class, Rcode, Rtype};
use domain::base::name::Name;
use domain::base::{Message, MessageBuilder, Question, ToName};
use domain::rdata::tsig::{Time48, Tsig};
use domain::tsig::{Algorithm, ClientTransaction, Key, ServerTransaction};
use ring::hmac;
use std::str::FromStr;

fn main() {
    let secret = [7u8; 32];
    let key_name = Name::<Vec<u8>>::from_str("key.example.").unwrap();
    let key = Key::new(Algorithm::Sha256, &secret, domain::tsig::KeyName::from_str("key.example.").unwrap(), None, None).unwrap();

    // client request signed at t0
    let t0 = Time48::from_u64(1_000_000);
    let mut req = MessageBuilder::new_vec().question();
    req.push(Question::new(Name::<Vec<u8>>::from_str("example.com.").unwrap(), Rtype::A, Class::IN)).unwrap();
    let mut req = req.additional();
    let _txn = ClientTransaction::request(&key, &mut req, t0).unwrap();
    let mut req = Message::from_octets(req.finish()).unwrap();
    let req_mac: Vec<u8> = {
        let rec = req.additional().unwrap().limit_to::<Tsig<_, _>>().next().unwrap().unwrap();
        rec.data().mac().as_ref().to_vec()
    };

    // server sees it an hour later: BADTIME, signed error response
    let now = Time48::from_u64(1_000_000 + 3600);
    let err = match ServerTransaction::request(&key, &mut req, now) {
        Err(e) => e,
        Ok(_) => { println!("request unexpectedly accepted"); std::process::exit(2); }
    };
    let resp = err.build_message(&req, MessageBuilder::new_vec()).unwrap();
    let resp = Message::from_octets(resp.finish()).unwrap();
    assert_eq!(resp.header().rcode(), Rcode::NOTAUTH);
    let rec = resp.additional().unwrap().limit_to::<Tsig<_, _>>().next().unwrap().unwrap();
    let tsig = rec.data();
    let other: Vec<u8> = tsig.other().as_ref().to_vec();
    let mac: Vec<u8> = tsig.mac().as_ref().to_vec();
    println!("error response: TSIG error {:?}, other data {} octets, MAC {} octets", tsig.error(), other.len(), mac.len());

    // independent RFC 8945 section 4.3 computation
    let k = hmac::Key::new(hmac::HMAC_SHA256, &secret);
    let mut ctx = hmac::Context::with_key(&k);
    ctx.update(&(req_mac.len() as u16).to_be_bytes());            // request MAC, length-prefixed
    ctx.update(&req_mac);
    // the response message without the TSIG record (ARCOUNT decremented, original ID)
    let full = resp.as_slice();
    let mut wire = full.to_vec();
    let tsig_start = {
        let m2 = Message::from_octets(full).unwrap();
        let p = m2.additional().unwrap();
        p.pos()
    };
    wire.truncate(tsig_start);
    let ar = u16::from_be_bytes([wire[10], wire[11]]) - 1;
    wire[10..12].copy_from_slice(&ar.to_be_bytes());
    wire[0..2].copy_from_slice(&tsig.original_id().to_be_bytes());
    ctx.update(&wire);
    // TSIG variables
    let mut name_wire = Vec::new();
    key_name.compose_canonical(&mut name_wire).unwrap();
    ctx.update(&name_wire);
    ctx.update(&255u16.to_be_bytes());                              // CLASS ANY
    ctx.update(&0u32.to_be_bytes());                                // TTL
    ctx.update(b"\x0bhmac-sha256\0");
    ctx.update(&tsig.time_signed().into_octets());
    ctx.update(&tsig.fudge().to_be_bytes());
    ctx.update(&tsig.error().to_int().to_be_bytes());
    ctx.update(&(other.len() as u16).to_be_bytes());
    ctx.update(&other);
    let expect = ctx.sign();
    if expect.as_ref() == &mac[..] {
        println!("OK: MAC equals the independent RFC 8945 computation");
    } else {
        println!("MISMATCH: the BADTIME response MAC differs from the RFC 8945 computation");
        std::process::exit(1);
    }
}
