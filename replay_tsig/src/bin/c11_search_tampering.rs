//! C11 native search (a bounded exploration of the real crate, run on every check): what happens to correctly signed
//! messages on the way, for all four algorithms.
//! (5) Forwarders: a forwarder may rewrite the header ID (the TSIG record keeps the original ID, RFC 8945 4.2 / 5.3): a
//!     signed request, a signed answer and every message of a signed sequence of three answers verify on the other side
//!     with the ID rewritten, and the receiver sees the original ID again afterwards.
//! (6) The algorithm name of the TSIG record of a signed request rewritten in transit: another letter case is the same
//!     name and is accepted; a name with further labels behind a known first label (hmac-sha256.example.,
//!     hmac-sha256.sig-alg.reg.int.), another known algorithm, an unknown name or the root are never accepted -- the
//!     server answers with an error, it does not hand out a transaction.
//! (7) Order of the checks on the server (RFC 8945 5.2: key, then MAC, then time): for clock offsets inside, at the edge
//!     of and outside the fudge window, an untouched request is accepted inside the window and answered with a BADTIME
//!     error carrying a full MAC (which the client authenticates as ServerBadTime) outside of it; a request with one MAC
//!     bit or one question octet flipped is answered with BADSIG without a MAC -- whatever the clock says.
use domain::base::iana::{Rcode, Rtype, TsigRcode};
use domain::base::name::Name;
use domain::base::{Message, MessageBuilder};
use domain::rdata::tsig::{Time48, Tsig};
use domain::rdata::A;
use domain::tsig::{Algorithm, ClientSequence, ClientTransaction, Key, KeyName, ServerSequence, ServerTransaction, ValidationError};
use std::str::FromStr;
use std::sync::Arc;

fn fail(msg: String) -> ! {
    println!("FAILING INPUT: {}", msg);
    std::process::exit(1);
}

fn alg_label(alg: Algorithm) -> &'static [u8] {
    match alg {
        Algorithm::Sha1 => b"hmac-sha1",
        Algorithm::Sha256 => b"hmac-sha256",
        Algorithm::Sha384 => b"hmac-sha384",
        Algorithm::Sha512 => b"hmac-sha512",
    }
}

fn request(id: u16) -> domain::base::message_builder::AdditionalBuilder<Vec<u8>> {
    let mut mb = MessageBuilder::new_vec();
    mb.header_mut().set_id(id);
    let mut q = mb.question();
    q.push((Name::<Vec<u8>>::from_str("www.example.com.").unwrap(), Rtype::AXFR)).unwrap();
    q.additional()
}

fn answer(req: &Message<Vec<u8>>, n: u8) -> domain::base::message_builder::AdditionalBuilder<Vec<u8>> {
    let mut ab = MessageBuilder::new_vec().start_answer(req, Rcode::NOERROR).unwrap();
    ab.push((Name::<Vec<u8>>::from_str("www.example.com.").unwrap(), 30, A::from_octets(10, 0, 0, n))).unwrap();
    ab.additional()
}

/// the wire form of a name given as dot-separated labels ("" is the root)
fn wire_name(labels: &[&[u8]]) -> Vec<u8> {
    let mut v = Vec::new();
    for l in labels {
        v.push(l.len() as u8);
        v.extend_from_slice(l);
    }
    v.push(0);
    v
}

/// replaces the algorithm name at the start of the TSIG record data (the TSIG record is the last record)
fn with_algorithm_name(signed: &[u8], alg: Algorithm, new_name: &[u8]) -> Vec<u8> {
    let old = wire_name(&[alg_label(alg)]);
    let at = signed.windows(old.len()).rposition(|w| w == &old[..]).expect("algorithm name in the signed request");
    let rdlen = u16::from_be_bytes([signed[at - 2], signed[at - 1]]) as usize;
    let new_rdlen = rdlen - old.len() + new_name.len();
    let mut out = signed[..at - 2].to_vec();
    out.extend_from_slice(&(new_rdlen as u16).to_be_bytes());
    out.extend_from_slice(new_name);
    out.extend_from_slice(&signed[at + old.len()..]);
    out
}

fn serve(key: &Arc<Key>, wire: &[u8], now: Time48) -> Result<(), (TsigRcode, usize, Message<Vec<u8>>)> {
    let orig = Message::from_octets(wire.to_vec()).unwrap();
    let mut msg = Message::from_octets(wire.to_vec()).unwrap();
    match ServerTransaction::request(key, &mut msg, now) {
        Ok(Some(_)) => Ok(()),
        Ok(None) => fail(format!("a request with a TSIG record was treated as unsigned: {wire:02x?}")),
        Err(err) => {
            let code = err.error();
            let resp = err.build_message(&orig, MessageBuilder::new_vec()).unwrap().into_message();
            let mac_len = match resp.additional().unwrap().limit_to::<Tsig<_, _>>().next() {
                Some(Ok(t)) => t.data().mac().as_ref().len(),
                _ => fail(format!("error response without a TSIG record for {wire:02x?}")),
            };
            Err((code, mac_len, resp))
        }
    }
}

fn main() {
    let t0 = 1_700_000_000u64;
    let now = Time48::from_u64(t0);
    let mut cases = 0u64;
    for alg in [Algorithm::Sha1, Algorithm::Sha256, Algorithm::Sha384, Algorithm::Sha512] {
        for sign in [None, Some(alg.native_len() / 2)] {
            let key = Arc::new(
                Key::new(alg, b"0123456789abcdef0123456789abcdef0123456789abcdef0123456789abcdef", KeyName::from_str("tsig-key.example.").unwrap(), sign, sign)
                    .unwrap(),
            );
            // ---- (5) forwarded messages: the header ID rewritten, the original ID kept in the TSIG record
            for new_id in [0x1234u16, 0x0000, 0xFFFF, 0x4321] {
                cases += 1;
                let mut req = request(0x1234);
                let ctr = ClientTransaction::request(key.clone(), &mut req, now).unwrap();
                let mut wire = req.finish();
                wire[0..2].copy_from_slice(&new_id.to_be_bytes());
                let mut reqmsg = Message::from_octets(wire).unwrap();
                let str_ = match ServerTransaction::request(&key, &mut reqmsg, now) {
                    Ok(Some(t)) => t,
                    other => fail(format!(
                        "{alg} signing_len {sign:?}: signed request forwarded with ID {new_id:#06x} (original 0x1234): server says {:?}",
                        other.map(|o| o.is_some()).map_err(|e| e.error())
                    )),
                };
                if reqmsg.header().id() != 0x1234 {
                    fail(format!("{alg}: after verification the request carries ID {:#06x}, not the original 0x1234", reqmsg.header().id()));
                }
                let mut ans = answer(&reqmsg, 1);
                str_.answer(&mut ans, now).unwrap();
                let mut awire = ans.finish();
                awire[0..2].copy_from_slice(&new_id.to_be_bytes());
                let mut amsg = Message::from_octets(awire).unwrap();
                if let Err(e) = ctr.answer(&mut amsg, now) {
                    fail(format!("{alg} signing_len {sign:?}: signed answer forwarded with ID {new_id:#06x} (original 0x1234): client says {e}"));
                }
                if amsg.header().id() != 0x1234 {
                    fail(format!("{alg}: after verification the answer carries ID {:#06x}, not the original 0x1234", amsg.header().id()));
                }
                // a sequence of three answers, each forwarded under the new ID
                let mut req = request(0x1234);
                let mut cseq = ClientSequence::request(key.clone(), &mut req, now).unwrap();
                let mut reqmsg = Message::from_octets(req.finish()).unwrap();
                let mut sseq = ServerSequence::request(&key, &mut reqmsg, now).unwrap().unwrap();
                for i in 1..=3u8 {
                    let mut ans = answer(&reqmsg, i);
                    sseq.answer(&mut ans, now).unwrap();
                    let mut awire = ans.finish();
                    awire[0..2].copy_from_slice(&new_id.to_be_bytes());
                    let mut amsg = Message::from_octets(awire).unwrap();
                    if let Err(e) = cseq.answer(&mut amsg, now) {
                        fail(format!(
                            "{alg} signing_len {sign:?}: answer #{i} of a signed sequence forwarded with ID {new_id:#06x} (original 0x1234): client says {e}"
                        ));
                    }
                    if amsg.header().id() != 0x1234 {
                        fail(format!("{alg}: answer #{i} carries ID {:#06x} after verification, not the original 0x1234", amsg.header().id()));
                    }
                }
                if let Err(e) = cseq.done() {
                    fail(format!("{alg}: sequence not complete after three verified answers: {e}"));
                }
            }
            // ---- (6) the algorithm name rewritten in transit
            let mut req = request(0x1234);
            let _ctr = ClientTransaction::request(key.clone(), &mut req, now).unwrap();
            let good = req.finish();
            let lab = alg_label(alg);
            let upper = lab.to_ascii_uppercase();
            let other = if alg == Algorithm::Sha256 { &b"hmac-sha1"[..] } else { &b"hmac-sha256"[..] };
            let variants: Vec<(&str, Vec<u8>, bool)> = vec![
                ("as signed", wire_name(&[lab]), true),
                ("upper case", wire_name(&[&upper]), true),
                ("with .example. behind it", wire_name(&[lab, b"example"]), false),
                ("with .sig-alg.reg.int. behind it", wire_name(&[lab, b"sig-alg", b"reg", b"int"]), false),
                ("another algorithm", wire_name(&[other]), false),
                ("unknown name", wire_name(&[b"hmac-md4"]), false),
                ("the root", vec![0u8], false),
                ("behind another label", wire_name(&[b"x", lab]), false),
            ];
            for (what, name, accept) in variants {
                cases += 1;
                let wire = with_algorithm_name(&good, alg, &name);
                match (serve(&key, &wire, now), accept) {
                    (Ok(()), true) => {}
                    (Err(_), false) => {}
                    (Ok(()), false) => fail(format!(
                        "{alg}: signed request whose TSIG algorithm name was rewritten ({what}: {name:02x?}) was ACCEPTED by the server"
                    )),
                    (Err((code, _, _)), true) => fail(format!("{alg}: signed request with the algorithm name {what} refused with {code}")),
                }
            }
            // ---- (7) key, then MAC, then time
            let mut bad_mac = good.clone();
            let n = bad_mac.len();
            bad_mac[n - 7] ^= 0x01;
            let mut bad_body = good.clone();
            bad_body[13] ^= 0x01;
            for offset in [0i64, 1, 299, 300, -300, 301, -301, 4000, -100_000] {
                cases += 1;
                let clock = Time48::from_u64((t0 as i64 + offset) as u64);
                let inside = offset.abs() <= 300;
                match (serve(&key, &good, clock), inside) {
                    (Ok(()), true) => {}
                    (Err((TsigRcode::BADTIME, mac_len, mut resp)), false) => {
                        if mac_len == 0 {
                            fail(format!("{alg} clock offset {offset}: the BADTIME error response carries no MAC"));
                        }
                        let mut req2 = request(0x1234);
                        let ctr2 = ClientTransaction::request(key.clone(), &mut req2, now).unwrap();
                        // (the MAC of a request is deterministic: same key, same message, same time)
                        if req2.finish() != good {
                            fail(format!("{alg}: signing the same request twice gave different octets"));
                        }
                        match ctr2.answer(&mut resp, clock) {
                            Err(ValidationError::ServerBadTime { .. }) => {}
                            other => fail(format!("{alg} clock offset {offset}: signed BADTIME response gave {other:?} on the client")),
                        }
                    }
                    (other, _) => fail(format!(
                        "{alg} clock offset {offset}: untouched request: {:?} (inside the fudge window: {inside})",
                        other.map_err(|e| (e.0, e.1))
                    )),
                }
                for (what, wire) in [("one MAC bit flipped", &bad_mac), ("one question octet flipped", &bad_body)] {
                    match serve(&key, wire, clock) {
                        Err((TsigRcode::BADSIG, 0, _)) => {}
                        Err((code, mac_len, _)) => fail(format!(
                            "{alg} signing_len {sign:?} clock offset {offset}: request with {what} answered with {code} and a {mac_len}-octet MAC (RFC 8945 5.2: BADSIG, unsigned -- the MAC is checked before the time)"
                        )),
                        Ok(()) => fail(format!("{alg} clock offset {offset}: request with {what} accepted")),
                    }
                }
            }
        }
    }
    println!("OK: {cases} forwarding, algorithm-name and check-order cases behave as RFC 8945 says");
}
