//! D58 (C11): `Algorithm::from_name` compared the first label of the TSIG algorithm name with the lower-case spelling
//! octet by octet, so the server side (ServerTransaction / ServerSequence ::request) answered BADKEY to a correctly
//! signed request whose TSIG record spells the algorithm `HMAC-SHA256.` -- domain names compare without regard to case,
//! the MAC covers the algorithm name in canonical (lower-case) form and therefore still verifies, and the client side of
//! the same library (name equality) accepts such a spelling in a response. Reported by a round-9 seeding sub-agent.
#[path = "../th.rs"]
mod th;
use domain::base::Message;
use domain::rdata::tsig::Time48;
use domain::tsig::{ClientTransaction, ServerTransaction};

fn main() {
    let now = Time48::from_u64(1_700_000_000);
    let k = th::key(b"shared-secret-shared-secret-2222", None, None);
    let mut ok = true;
    for spelling in [&b"hmac-sha256"[..], b"HMAC-SHA256", b"Hmac-Sha256"] {
        let mut req = th::request();
        let _client = ClientTransaction::request(k.clone(), &mut req, now).unwrap();
        let mut bytes = req.finish();
        // the algorithm name inside the TSIG record data: \x0bhmac-sha256\x00
        let pat = b"\x0bhmac-sha256\x00";
        let at = bytes.windows(pat.len()).rposition(|w| w == pat).expect("algorithm name in the signed request");
        bytes[at + 1..at + 1 + spelling.len()].copy_from_slice(spelling);
        let mut msg = Message::from_octets(bytes).unwrap();
        match ServerTransaction::request(&k, &mut msg, now) {
            Ok(Some(_)) => println!("algorithm spelled {:?}: request accepted", String::from_utf8_lossy(spelling)),
            Ok(None) => {
                println!("algorithm spelled {:?}: request treated as unsigned", String::from_utf8_lossy(spelling));
                ok = false;
            }
            Err(e) => {
                let reply = e.build_message(&msg, domain::base::MessageBuilder::new_vec()).ok().map(|m| m.finish());
                println!(
                    "algorithm spelled {:?}: honest request refused ({} octet error reply)",
                    String::from_utf8_lossy(spelling),
                    reply.map(|r| r.len()).unwrap_or(0)
                );
                ok = false;
            }
        }
    }
    if !ok {
        println!("FAIL: a correctly signed request is refused because of the letter case of the algorithm name");
        std::process::exit(1);
    }
    println!("OK");
}
