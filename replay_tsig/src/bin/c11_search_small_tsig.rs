//! C11 native search (a bounded exploration of the real crate, run on every check; it also supplies the concrete input when a Verus obligation of the property fails): on the real crate, (1) Time48: wire round trip for times around every byte boundary, eq_fudged against
//! |a - b| <= fudge on a grid around the edges; (2) Key::new accepts exactly the RFC 8945 5.2.2.1 lengths for all four
//! algorithms and all lengths 0..=70; (3) for every accepted signing length of HMAC-SHA256 a request, its answer and a
//! sequence of three answers signed by one side verify on the other, a flipped octet is rejected, and a run of 99
//! unsigned answers is accepted while the 100th is not; (4) for all four algorithms and key names in lower, upper and
//! mixed case the MAC of a signed request equals an independent RFC 8945 4.3.3 computation with ring (message without
//! the TSIG record, then key name in canonical form, class ANY, TTL 0, algorithm name, time signed, fudge, error, other
//! length), and a server whose key is named in another letter case accepts the request.
#[path = "../th.rs"]
mod th;
use domain::base::name::Name;
use domain::base::{Message, MessageBuilder};
use domain::rdata::tsig::Time48;
use domain::rdata::A;
use domain::tsig::{Algorithm, ClientSequence, ClientTransaction, Key, KeyName, ServerSequence, ServerTransaction};
use std::str::FromStr;
use std::sync::Arc;

fn fail(msg: String) -> ! {
    println!("FAILING INPUT: {}", msg);
    std::process::exit(1);
}

fn main() {
    // (1) Time48
    let mut times = vec![0u64, 1, 255, 256];
    for sh in [8u32, 16, 24, 32, 40] {
        for d in [-1i64, 0, 1] {
            times.push(((1u64 << sh) as i64 + d) as u64);
        }
    }
    times.push((1u64 << 48) - 1);
    times.push(0x0102_0304_0506);
    times.push(0x8070_6050_4030);
    for &t in &times {
        let o = Time48::from_u64(t).into_octets();
        let mut p = octseq::parse::Parser::from_ref(&o[..]);
        let back = Time48::parse(&mut p).ok();
        if back != Some(Time48::from_u64(t)) || o != [(t >> 40) as u8, (t >> 32) as u8, (t >> 24) as u8, (t >> 16) as u8, (t >> 8) as u8, t as u8] {
            fail(format!("Time48 {:#x}: octets {:02x?}, read back as {:?}", t, o, back));
        }
    }
    for &a in &[0u64, 5, 300, 1_700_000_000, (1 << 48) - 1, (1 << 48) - 300] {
        for f in [0u64, 1, 300, 65535] {
            for d in [-2i64, -1, 0, 1, 2] {
                for sign in [-1i64, 1] {
                    let b = a as i64 + sign * (f as i64 + d);
                    if b < 0 || b >= (1i64 << 48) {
                        continue;
                    }
                    let b = b as u64;
                    let expect = a.abs_diff(b) <= f;
                    if Time48::from_u64(a).eq_fudged(Time48::from_u64(b), f) != expect {
                        fail(format!("Time48({}).eq_fudged(Time48({}), {}) = {} but |a-b| <= fudge is {}", a, b, f, !expect, expect));
                    }
                }
            }
        }
    }
    // (2) key length bounds
    for (alg, native) in [(Algorithm::Sha1, 20usize), (Algorithm::Sha256, 32), (Algorithm::Sha384, 48), (Algorithm::Sha512, 64)] {
        for len in 0..=70usize {
            let ok_expected = len >= core::cmp::max(10, native / 2) && len <= native;
            for which in 0..2 {
                let (min, sign) = if which == 0 { (Some(len), None) } else { (None, Some(len)) };
                let r = Key::new(alg, b"0123456789abcdef0123456789abcdef", KeyName::from_str("k.").unwrap(), min, sign);
                if r.is_ok() != ok_expected {
                    fail(format!("Key::new({:?}, min_mac_len {:?}, signing_len {:?}) is_ok = {} but RFC 8945 5.2.2.1 says {}", alg, min, sign, r.is_ok(), ok_expected));
                }
            }
        }
    }
    // (3) sign / verify for every signing length
    let now = Time48::from_u64(1_700_000_000);
    for sign in 16..=32usize {
        let k = Arc::new(Key::new(Algorithm::Sha256, b"shared-secret-shared-secret-2222", KeyName::from_str("demo-key.").unwrap(), Some(16), Some(sign)).unwrap());
        // transaction
        let mut req = th::request();
        let tr = ClientTransaction::request(k.clone(), &mut req, now).unwrap();
        let mut reqmsg = Message::from_octets(req.finish()).unwrap();
        let st = match ServerTransaction::request(&k, &mut reqmsg, now) {
            Ok(Some(st)) => st,
            _ => fail(format!("signing_len {}: an honestly signed request is not accepted", sign)),
        };
        let mut ans = th::answer(&reqmsg, 1);
        st.answer(&mut ans, now).unwrap();
        let bytes = ans.finish();
        let mut ansmsg = Message::from_octets(bytes.clone()).unwrap();
        if tr.answer(&mut ansmsg, now).is_err() {
            fail(format!("signing_len {}: an honestly signed answer does not verify", sign));
        }
        // flip one bit of the address in the answer section
        let mut t = bytes.clone();
        let at = t.windows(4).position(|w| w == [10, 0, 0, 1]).unwrap();
        t[at + 3] ^= 1;
        if let Ok(mut m) = Message::from_octets(t) {
            let mut req2 = th::request();
            let tr2 = ClientTransaction::request(k.clone(), &mut req2, now).unwrap();
            let _ = req2;
            if tr2.answer(&mut m, now).is_ok() {
                fail(format!("signing_len {}: an answer with a flipped octet verifies", sign));
            }
        }
        // sequence of three signed answers
        let mut req = th::request();
        let mut cseq = ClientSequence::request(k.clone(), &mut req, now).unwrap();
        let mut reqmsg = Message::from_octets(req.finish()).unwrap();
        let mut sseq = ServerSequence::request(&k, &mut reqmsg, now).unwrap().unwrap();
        for i in 1..=3u8 {
            let mut ans = th::answer(&reqmsg, i);
            sseq.answer(&mut ans, now).unwrap();
            let mut ansmsg = Message::from_octets(ans.finish()).unwrap();
            if cseq.answer(&mut ansmsg, now).is_err() {
                fail(format!("signing_len {}: answer #{} of an honestly signed sequence does not verify", sign, i));
            }
        }
        if cseq.done().is_err() {
            fail(format!("signing_len {}: a sequence whose last answer was signed is not done", sign));
        }
    }
    // unsigned runs: first answer signed, then 99 unsigned are fine, the 100th is not
    let k = th::key(b"shared-secret-shared-secret-2222", None, None);
    let mut req = th::request();
    let mut cseq = ClientSequence::request(k.clone(), &mut req, now).unwrap();
    let mut reqmsg = Message::from_octets(req.finish()).unwrap();
    let mut sseq = ServerSequence::request(&k, &mut reqmsg, now).unwrap().unwrap();
    let mut ans = th::answer(&reqmsg, 1);
    sseq.answer(&mut ans, now).unwrap();
    let mut ansmsg = Message::from_octets(ans.finish()).unwrap();
    cseq.answer(&mut ansmsg, now).unwrap();
    for i in 1..=100u32 {
        let mut mb = MessageBuilder::new_vec().start_answer(&reqmsg, domain::base::iana::Rcode::NOERROR).unwrap();
        mb.push((Name::<Vec<u8>>::from_str("example.com.").unwrap(), 30, A::from_octets(10, 0, 0, 2))).unwrap();
        let mut m = Message::from_octets(mb.additional().finish()).unwrap();
        let r = cseq.answer(&mut m, now);
        if i <= 99 && r.is_err() {
            fail(format!("unsigned answer #{} in a row is refused (99 are allowed)", i));
        }
        if i == 100 && r.is_ok() {
            fail("the 100th unsigned answer in a row is accepted (at most 99 are allowed)".into());
        }
    }
    // (4) MACs against an independent computation, key names in every letter case
    for (alg, ralg, algname) in [
        (Algorithm::Sha1, ring::hmac::HMAC_SHA1_FOR_LEGACY_USE_ONLY, &b"\x09hmac-sha1\0"[..]),
        (Algorithm::Sha256, ring::hmac::HMAC_SHA256, &b"\x0bhmac-sha256\0"[..]),
        (Algorithm::Sha384, ring::hmac::HMAC_SHA384, &b"\x0bhmac-sha384\0"[..]),
        (Algorithm::Sha512, ring::hmac::HMAC_SHA512, &b"\x0bhmac-sha512\0"[..]),
    ] {
        for kname in ["tsig-key.example.", "TSIG-KEY.EXAMPLE.", "Tsig-Key.exAmple."] {
            let secret = [0x5Au8; 64];
            let key = Arc::new(Key::new(alg, &secret, KeyName::from_str(kname).unwrap(), None, None).unwrap());
            let mut req = th::request();
            let _tr = ClientTransaction::request(key.clone(), &mut req, now).unwrap();
            let bytes = req.finish();
            let msg = Message::from_octets(bytes.clone()).unwrap();
            let rec = msg.additional().unwrap().limit_to::<domain::rdata::tsig::Tsig<_, _>>().next().unwrap().unwrap();
            let tsig = rec.data();
            let mac: Vec<u8> = tsig.mac().as_ref().to_vec();
            // the message without the TSIG record
            let mut plain = th::request().finish();
            plain[0..2].copy_from_slice(&tsig.original_id().to_be_bytes());
            let rk = ring::hmac::Key::new(ralg, &secret);
            let mut ctx = ring::hmac::Context::with_key(&rk);
            ctx.update(&plain);
            let mut name_wire = Vec::new();
            for label in kname.to_ascii_lowercase().trim_end_matches('.').split('.') {
                name_wire.push(label.len() as u8);
                name_wire.extend_from_slice(label.as_bytes());
            }
            name_wire.push(0);
            ctx.update(&name_wire);
            ctx.update(&255u16.to_be_bytes());
            ctx.update(&0u32.to_be_bytes());
            ctx.update(algname);
            ctx.update(&tsig.time_signed().into_octets());
            ctx.update(&tsig.fudge().to_be_bytes());
            ctx.update(&0u16.to_be_bytes());
            ctx.update(&0u16.to_be_bytes());
            let expect = ctx.sign();
            if expect.as_ref() != &mac[..] {
                fail(format!("{:?}, key name {:?}: the MAC of the signed request differs from the independent RFC 8945 4.3.3 computation", alg, kname));
            }
            // a server that spells the same key name in another case accepts the request
            let skey = Key::new(alg, &secret, KeyName::from_str(&kname.to_ascii_uppercase()).unwrap(), None, None).unwrap();
            let mut reqmsg = Message::from_octets(bytes).unwrap();
            match ServerTransaction::request(&skey, &mut reqmsg, now) {
                Ok(Some(_)) => {}
                _ => fail(format!("{:?}: a request signed with key name {:?} is refused by a server that spells the name in upper case", alg, kname)),
            }
        }
    }
    println!("OK: Time48, key length bounds, sign/verify for every signing length, unsigned runs, MACs of all algorithms against an independent computation");
}
