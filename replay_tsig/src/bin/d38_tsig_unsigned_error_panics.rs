//! D38 (C11): for a request whose TSIG record is not the last record (or cannot be interpreted) the server-side
//! check returns an unsigned FORMERR error; building the response for that error called
//! `MessageTsig::from_message(msg).expect(..)` on the very message that had just failed it: a panic.
#[path = "../th.rs"]
mod th;
use domain::base::name::Name;
use domain::base::{Message, MessageBuilder};
use domain::rdata::tsig::Time48;
use domain::rdata::A;
use domain::tsig::{ClientTransaction, ServerTransaction};
use std::str::FromStr;

fn main() {
    std::panic::set_hook(Box::new(|_| {}));
    let now = Time48::from_u64(1_700_000_000);
    let k = th::key(b"client-secret-client-secret-0000", None, None);
    let mut req = th::request();
    let _tr = ClientTransaction::request(k.clone(), &mut req, now).unwrap();
    // one more record after the TSIG record
    req.push((Name::<Vec<u8>>::from_str("extra.").unwrap(), 30, A::from_octets(10, 0, 0, 1))).unwrap();
    let mut msg = Message::from_octets(req.finish()).unwrap();
    match ServerTransaction::request(&k, &mut msg, now) {
        Err(e) => {
            println!("TSIG record not last -> TSIG error {}", e.error());
            let msg2 = msg.clone();
            let r = std::panic::catch_unwind(move || e.build_message(&msg2, MessageBuilder::new_vec()).map(|b| b.finish().len()).map_err(|e| e.to_string()));
            match r {
                Ok(r) => println!("build_message -> {:?}", r),
                Err(_) => {
                    println!("FAIL: building the error response panics");
                    std::process::exit(1);
                }
            }
        }
        Ok(x) => {
            println!("FAIL: request accepted ({})", x.is_some());
            std::process::exit(1);
        }
    }
    println!("OK");
}
