//! D36 (C11): `ServerSequence::answer` fed the full HMAC tag into the running context and only then truncated it
//! for the wire, while the client (and RFC 8945 5.3.1) continue with the MAC as transmitted: with a key whose
//! signing length is below the native length the second and later answers of a sequence failed to verify.
#[path = "../th.rs"]
mod th;
use domain::base::Message;
use domain::rdata::tsig::Time48;
use domain::tsig::{ClientSequence, ServerSequence};

fn main() {
    let now = Time48::from_u64(1_700_000_000);
    let mut ok = true;
    for sign in [None, Some(16usize)] {
        let k = th::key(b"shared-secret-shared-secret-2222", Some(16), sign);
        let mut req = th::request();
        let mut cseq = ClientSequence::request(k.clone(), &mut req, now).unwrap();
        let mut reqmsg = Message::from_octets(req.finish()).unwrap();
        let mut sseq = ServerSequence::request(&k, &mut reqmsg, now).unwrap().unwrap();
        for i in 1..=3u8 {
            let mut ans = th::answer(&reqmsg, i);
            sseq.answer(&mut ans, now).unwrap();
            let mut ansmsg = Message::from_octets(ans.finish()).unwrap();
            let r = cseq.answer(&mut ansmsg, now);
            println!("signing_len = {:?}, answer #{}: client verification -> {:?}", sign, i, r.as_ref().map_err(|e| e.to_string()));
            ok &= r.is_ok();
        }
    }
    if !ok {
        println!("FAIL: an honestly signed answer sequence does not verify");
        std::process::exit(1);
    }
    println!("OK");
}
