//! D37 (C11): a request whose MAC does not verify (wrong secret) was answered with TSIG error FORMERR; RFC 8945
//! section 5.2.2 assigns BADSIG.
#[path = "../th.rs"]
mod th;
use domain::base::iana::TsigRcode;
use domain::base::Message;
use domain::rdata::tsig::Time48;
use domain::tsig::{ClientTransaction, ServerTransaction};

fn main() {
    let now = Time48::from_u64(1_700_000_000);
    let ckey = th::key(b"client-secret-client-secret-0000", None, None);
    let skey = th::key(b"server-secret-server-secret-1111", None, None);
    let mut req = th::request();
    let _tr = ClientTransaction::request(ckey, &mut req, now).unwrap();
    let mut msg = Message::from_octets(req.finish()).unwrap();
    match ServerTransaction::request(&skey, &mut msg, now) {
        Err(e) => {
            println!("request signed with another secret -> TSIG error {}", e.error());
            if e.error() != TsigRcode::BADSIG {
                println!("FAIL: RFC 8945 5.2.2 assigns BADSIG");
                std::process::exit(1);
            }
        }
        Ok(_) => {
            println!("FAIL: accepted");
            std::process::exit(1);
        }
    }
    println!("OK");
}
