//! C01 native search (a bounded exploration of the real crate, run on every check; it also supplies the concrete input when a Verus obligation of the property fails): every octet string of at most 7 octets over the octets that matter to the
//! name parser (label lengths 0, 1, 2, 63, the reserved type 0x40, pointers 0xC0/0xC1 and a letter), parsed as a
//! possibly compressed name at every offset. A panic, a read that makes no progress for 10 s, or a parsed name whose
//! own views disagree (labels forwards / backwards / flattened / flat slice / length) is the failing input. Then every
//! message with section counts 0..=2 and a body of at most 5 such octets is walked twice (questions, the three record
//! sections, all records, OPT, CNAME chain): no panic, no hang, same result both times.
use domain::base::name::{Label, Name, ParsedName, ToLabelIter, ToName};
use octseq::parse::Parser;
use std::sync::atomic::{AtomicU64, Ordering};
use std::sync::{Arc, Mutex};

const ALPHABET: &[u8] = &[0x00, 0x01, 0x02, 0x3F, 0x40, 0xC0, 0xC1, b'a'];

fn check(buf: &[u8], pos: usize) -> Result<(), String> {
    // the unchecked slice iterator must terminate on anything
    let mut n = 0;
    for _ in Label::iter_slice(buf, pos) {
        n += 1;
        if n > 300 {
            return Err("Label::iter_slice yields more than 300 labels on a short buffer".into());
        }
    }
    let mut p = Parser::from_ref(buf);
    if p.advance(pos).is_err() {
        return Ok(());
    }
    let name = match ParsedName::parse(&mut p) {
        Ok(name) => name,
        Err(_) => return Ok(()),
    };
    if p.pos() > buf.len() || p.pos() <= pos {
        return Err(format!("parser position {} after parsing at {}", p.pos(), pos));
    }
    let fwd: Vec<Vec<u8>> = name.iter().map(|l| l.as_slice().to_vec()).collect();
    let mut bwd: Vec<Vec<u8>> = name.iter().rev().map(|l| l.as_slice().to_vec()).collect();
    bwd.reverse();
    if fwd != bwd {
        return Err("labels differ when iterated from the back".into());
    }
    if fwd.last().map(|l| !l.is_empty()).unwrap_or(true) || fwd[..fwd.len() - 1].iter().any(|l| l.is_empty()) {
        return Err("label sequence is not `non-empty labels, then the root label`".into());
    }
    let mut wire = Vec::new();
    for l in &fwd {
        wire.push(l.len() as u8);
        wire.extend_from_slice(l);
    }
    if wire.len() > 255 || usize::from(name.compose_len()) != wire.len() {
        return Err(format!("compose_len {} but the labels make {} octets", name.compose_len(), wire.len()));
    }
    let flat: Name<Vec<u8>> = name.to_name();
    if flat.as_slice() != &wire[..] {
        return Err("to_name() differs from the concatenated labels".into());
    }
    if let Some(s) = name.as_flat_slice() {
        if s != &wire[..] {
            return Err(format!("as_flat_slice() = {:?} but the labels make {:?}", s, wire));
        }
    }
    if !name.name_eq(&flat) || !flat.name_eq(&name) || name != name {
        return Err("the parsed name is not equal to its own flattened copy".into());
    }
    Ok(())
}

/// every read-side walk over a small message terminates and agrees with itself when repeated
fn check_message(msg: &[u8]) -> Result<(), String> {
    use domain::base::Message;
    let m = match Message::from_slice(msg) {
        Ok(m) => m,
        Err(_) => return Ok(()),
    };
    let walk = |m: &Message<[u8]>| -> Vec<String> {
        let mut out = Vec::new();
        let mut n = 0;
        for q in m.question() {
            n += 1;
            if n > 70000 {
                out.push("question iterator yields more than 65535 items".into());
                return out;
            }
            out.push(match q { Ok(q) => format!("q {}", q.qname()), Err(_) => "q err".into() });
        }
        out.push(format!("answer {:?}", m.answer().map(|s| s.count()).ok()));
        out.push(format!("authority {:?}", m.authority().map(|s| s.count()).ok()));
        out.push(format!("additional {:?}", m.additional().map(|s| s.count()).ok()));
        let mut n = 0;
        for r in m.iter() {
            n += 1;
            if n > 200000 {
                out.push("record iterator yields more than 3 * 65535 items".into());
                return out;
            }
            out.push(match r { Ok((r, sec)) => format!("{:?} {} {}", sec, r.owner(), r.rtype()), Err(_) => "r err".into() });
        }
        out.push(format!("opt {}", m.opt().is_some()));
        out.push(format!("cname {:?}", m.canonical_name().map(|n| n.to_string())));
        out.push(format!("first q {:?}", m.first_question().map(|q| q.qtype())));
        out
    };
    let (a, b) = (walk(m), walk(m));
    if a != b {
        return Err("walking the message twice gives different results".into());
    }
    if let Some(l) = a.iter().find(|l| l.contains("more than")) {
        return Err(l.clone());
    }
    Ok(())
}

fn main() {
    std::panic::set_hook(Box::new(|_| {}));
    let progress = Arc::new(AtomicU64::new(0));
    let current = Arc::new(Mutex::new((Vec::<u8>::new(), 0usize)));
    let failed = Arc::new(Mutex::new(None::<(Vec<u8>, usize, String)>));
    let (p2, c2, f2) = (progress.clone(), current.clone(), failed.clone());
    let worker = std::thread::spawn(move || {
        let k = ALPHABET.len();
        for len in 1..=7usize {
            let total = k.pow(len as u32);
            for mut idx in 0..total {
                let mut buf = Vec::with_capacity(len);
                for _ in 0..len {
                    buf.push(ALPHABET[idx % k]);
                    idx /= k;
                }
                for pos in 0..len {
                    *c2.lock().unwrap() = (buf.clone(), pos);
                    p2.fetch_add(1, Ordering::SeqCst);
                    let b2 = buf.clone();
                    match std::panic::catch_unwind(move || check(&b2, pos)) {
                        Ok(Ok(())) => {}
                        Ok(Err(msg)) => {
                            *f2.lock().unwrap() = Some((buf, pos, msg));
                            return;
                        }
                        Err(e) => {
                            let msg = e.downcast_ref::<String>().cloned().or_else(|| e.downcast_ref::<&str>().map(|s| s.to_string())).unwrap_or_default();
                            *f2.lock().unwrap() = Some((buf, pos, format!("PANIC: {}", msg)));
                            return;
                        }
                    }
                }
            }
        }
        // small messages: every combination of section counts 0..=2 with every body of at most 5 octets
        for counts in 0..81usize {
            let c = [counts % 3, counts / 3 % 3, counts / 9 % 3, counts / 27 % 3];
            for len in 0..=5usize {
                let total = k.pow(len as u32);
                for mut idx in 0..total {
                    let mut msg = vec![0u8; 12];
                    for (i, v) in c.iter().enumerate() {
                        msg[5 + 2 * i] = *v as u8;
                    }
                    for _ in 0..len {
                        msg.push(ALPHABET[idx % k]);
                        idx /= k;
                    }
                    *c2.lock().unwrap() = (msg.clone(), usize::MAX);
                    p2.fetch_add(1, Ordering::SeqCst);
                    let m2 = msg.clone();
                    match std::panic::catch_unwind(move || check_message(&m2)) {
                        Ok(Ok(())) => {}
                        Ok(Err(e)) => {
                            *f2.lock().unwrap() = Some((msg, usize::MAX, e));
                            return;
                        }
                        Err(e) => {
                            let e = e.downcast_ref::<String>().cloned().or_else(|| e.downcast_ref::<&str>().map(|s| s.to_string())).unwrap_or_default();
                            *f2.lock().unwrap() = Some((msg, usize::MAX, format!("PANIC: {}", e)));
                            return;
                        }
                    }
                }
            }
        }
    });
    let (mut last, mut stalled) = (0, 0);
    loop {
        std::thread::sleep(std::time::Duration::from_millis(200));
        if worker.is_finished() {
            break;
        }
        let now = progress.load(Ordering::SeqCst);
        if now == last {
            stalled += 1;
            if stalled >= 50 {
                let (buf, pos) = current.lock().unwrap().clone();
                if pos == usize::MAX { println!("FAILING INPUT: message octets {:02x?}", buf); } else { println!("FAILING INPUT: octets {:02x?}, name parsed/iterated at offset {}", buf, pos); }
                println!("no progress for 10 s: the operation does not terminate");
                std::process::exit(1);
            }
        } else {
            stalled = 0;
            last = now;
        }
    }
    if let Some((buf, pos, msg)) = failed.lock().unwrap().clone() {
        if pos == usize::MAX { println!("FAILING INPUT: message octets {:02x?}", buf); } else { println!("FAILING INPUT: octets {:02x?}, name parsed/iterated at offset {}", buf, pos); }
        println!("{}", msg);
        std::process::exit(1);
    }
    println!("OK: {} (buffer, offset) pairs, no panic, hang or inconsistent name", progress.load(Ordering::SeqCst));
}
