//! D14 (C18): base64::Decoder::push after the error for "AA=A" indexes buf[4].
use domain::utils::base64::Decoder;
fn main() {
    let mut d = Decoder::<Vec<u8>>::new();
    for ch in "AA=".chars() {
        d.push(ch).unwrap();
    }
    let e = d.push('A');
    println!("push('A') after \"AA=\" -> {:?}", e);
    assert!(e.is_err());
    // documented: "It is okay to push more data after the first error."
    let r = std::panic::catch_unwind(std::panic::AssertUnwindSafe(|| d.push('A')));
    match r {
        Ok(x) => { println!("next push -> {:?}", x); assert!(x.is_err()); println!("OK: no panic, error is sticky"); }
        Err(_) => { println!("PANIC in Decoder::push after an error"); std::process::exit(1); }
    }
    assert!(d.finalize().is_err());
}
