//! D50 (C03): UncertainName::from_octets applied the 255-octet limit of absolute names to every name: a relative name of
//! 255 octets (valid labels, no root label) was accepted and handed out as a `RelativeName` -- which the checked
//! constructor RelativeName::from_octets refuses (relative names are at most 254 octets, so that they can be made
//! absolute); into_absolute() of it gives a 256-octet `Name`.
use domain::base::name::{RelativeName, UncertainName};

fn main() {
    // 4 labels of 63 octets (256 octets with length octets) are too long anyway; 3 x 63 + one of 62: 192 + 63 = 255
    let mut wire = Vec::new();
    for len in [63usize, 63, 63, 62] {
        wire.push(len as u8);
        wire.extend(std::iter::repeat(b'a').take(len));
    }
    assert_eq!(wire.len(), 255);
    let mut ok = true;
    let checked = RelativeName::from_octets(wire.clone());
    println!("RelativeName::from_octets(255 octets) is_ok = {}", checked.is_ok());
    match UncertainName::from_octets(wire.clone()) {
        Ok(UncertainName::Relative(r)) => {
            println!("UncertainName::from_octets(255 octets) -> Relative of {} octets", r.as_slice().len());
            match std::panic::catch_unwind(move || r.into_absolute().map(|n| n.as_slice().len())) {
                Ok(Ok(n)) => println!("  .into_absolute() -> Name of {n} octets"),
                Ok(Err(_)) => println!("  .into_absolute() -> Err"),
                Err(_) => println!("  .into_absolute() panics"),
            }
            println!("FAIL: a relative name of more than 254 octets was handed out");
            ok = false;
        }
        Ok(UncertainName::Absolute(_)) => {
            println!("FAIL: read as absolute");
            ok = false;
        }
        Err(e) => println!("UncertainName::from_octets(255 octets) -> Err({e})"),
    }
    // 254 octets are fine
    let mut w254 = wire.clone();
    w254.remove(254);
    w254[192] = 61;
    match UncertainName::from_octets(w254) {
        Ok(UncertainName::Relative(r)) if r.as_slice().len() == 254 => println!("254 octets -> Relative, fine"),
        _ => {
            println!("FAIL: a relative name of 254 octets is not accepted as such");
            ok = false;
        }
    }
    // an absolute name of 255 octets is fine
    let mut a255 = wire.clone();
    a255[192] = 61;
    a255[254] = 0;
    match UncertainName::from_octets(a255) {
        Ok(UncertainName::Absolute(n)) if n.as_slice().len() == 255 => println!("255 octets ending in the root label -> Absolute, fine"),
        _ => {
            println!("FAIL: an absolute name of 255 octets is not accepted as such");
            ok = false;
        }
    }
    if !ok {
        std::process::exit(1);
    }
    println!("OK");
}
