//! D5a (C03): NameBuilder::push at 253 octets without an open label yields a 255-octet relative name.
use domain::base::name::NameBuilder;
fn main() {
    let mut b = NameBuilder::new_vec();
    for _ in 0..25 { b.append_label(b"123456789").unwrap(); }   // 250 octets
    b.append_label(b"12").unwrap();                             // 253 octets, no open label
    assert_eq!(b.len(), 253);
    let r = b.push(b'x');
    let rel = b.clone().finish();
    let abs = b.into_name();
    println!("push at 253 -> {:?}; relative name length {}, absolute {:?}", r, rel.len(), abs.as_ref().map(|n| n.len()));
    if rel.len() > 254 { println!("INVALID: relative name of {} octets", rel.len()); std::process::exit(1); }
    println!("OK");
}
