//! D22 (C04): `CanonicalOrd for Ipseckey` compared a name gateway with `name_cmp` although the canonical RDATA
//! contains the gateway name as it is: the canonical order disagreed with the octet order of the canonical RDATA.
use domain::base::cmp::CanonicalOrd;
use domain::base::iana::IpseckeyAlgorithm;
use domain::base::name::Name;
use domain::base::rdata::ComposeRecordData;
use domain::rdata::ipseckey::{Ipseckey, IpseckeyGateway};
use std::str::FromStr;

type K = Ipseckey<Vec<u8>, Name<Vec<u8>>>;
fn key(gw: &str) -> K {
    Ipseckey::new(10, IpseckeyAlgorithm::RSA, IpseckeyGateway::Name(Name::from_str(gw).unwrap()), vec![1, 2, 3])
}
fn canon(d: &K) -> Vec<u8> {
    let mut v = Vec::new();
    d.compose_canonical_rdata(&mut v).unwrap();
    v
}
fn check(x: &str, y: &str) -> bool {
    let (a, b) = (key(x), key(y));
    let (c, w) = (a.canonical_cmp(&b), canon(&a).cmp(&canon(&b)));
    println!("gateway {} vs {}: canonical_cmp = {:?}, canonical RDATA order = {:?}", x, y, c, w);
    if c != w {
        println!("FAIL: canonical_cmp differs from the octet order of the canonical RDATA");
    }
    c == w
}
fn main() {
    let mut ok = true;
    ok &= check("a.b.", "b.a.");
    ok &= check("A.", "a.");
    ok &= check("a.example.", "b.example.");
    if !ok {
        std::process::exit(1);
    }
    println!("OK");
}
