//! D40 (C05, open): several record data constructors (Sshfp, Tlsa, Caa, Openpgpkey, Zonemd, Ipseckey, Nsec, Nsec3)
//! are infallible and do no length check, while `rdlen()` expects the data to fit 16 bits: a value the constructor
//! accepts makes `rdlen()` panic. (Dnskey, Ds, Rrsig, Tsig, Cds, Svcb return `LongRecordData` instead.)
use domain::base::rdata::ComposeRecordData;
use domain::rdata::Sshfp;

fn main() {
    std::panic::set_hook(Box::new(|_| {}));
    let r = std::panic::catch_unwind(|| Sshfp::new(1.into(), 1.into(), vec![0u8; 65534]).rdlen(false));
    match r {
        Ok(l) => {
            println!("Sshfp::new(.., 65534 octets).rdlen() = {:?}", l);
            println!("OK");
        }
        Err(_) => {
            println!("FAIL: Sshfp::new accepts a 65534-octet fingerprint (RDATA of 65536 octets) and rdlen() panics");
            std::process::exit(1);
        }
    }
}
