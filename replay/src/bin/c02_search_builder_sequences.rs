//! C02 native search (a bounded exploration of the real crate, run on every check; it also supplies the concrete input when a Verus obligation of the property fails):
//! on the real crate, every sequence of at most 4 pushes of A records into the answer section -- owners from three
//! names sharing suffixes, each push either unrestricted or under a push limit that makes it fail after 1, 5 or 12
//! more octets -- with the three name compressors and without one. The finished message has to parse back to
//! exactly the records whose push succeeded, with ANCOUNT equal to their number, and a failed push has to leave the
//! message octets as they were.
//! Part 2 (name shapes): every ordered triple out of 16 names chosen for their shape -- a label run that repeats at once
//! (www.www.example.com, 1.1.168.192.in-addr.arpa), a period-two repeat (a.b.a.b.example.org), names that are label-wise
//! prefixes or suffixes of one another, the same labels in another case, one-label names, the root, 63-octet labels --
//! pushed as owner and as exchange of MX records: under every compressor the message parses and gives back the names
//! that were pushed (up to letter case).
use domain::base::message_builder::{HashCompressor, StaticCompressor, TreeCompressor};
use domain::base::name::Name;
use domain::base::wire::Composer;
use domain::base::{Message, MessageBuilder, Rtype};
use domain::rdata::A;
use std::str::FromStr;

const NAMES: [&str; 3] = ["www.example.com.", "mail.example.com.", "a.www.example.com."];
/// names one of which *begins* with the labels of another (a compressor that files names by their leading labels
/// must forget `example.org.` when a failed push is rolled back although `example.` stays), and an unrelated one
const NAMES_PREFIX: [&str; 3] = ["example.", "example.org.", "bar.test."];

#[derive(Clone, Copy, Debug)]
enum Op {
    Push(usize),
    Limited(usize, usize),
}

fn run<T: Composer>(what: &str, target: T, seq: &[Op], names: &[&str; 3]) -> Result<(), String> {

    let mut mb = MessageBuilder::from_target(target).map_err(|_| "from_target".to_string())?;
    mb.header_mut().set_id(1);
    let mut q = mb.question();
    q.push((Name::<Vec<u8>>::from_str("example.com.").unwrap(), Rtype::A)).map_err(|_| "question".to_string())?;
    let mut a = q.answer();
    let mut model: Vec<usize> = Vec::new();
    for op in seq {
        let before = a.as_slice().to_vec();
        let (i, ok) = match *op {
            Op::Push(i) => (i, a.push((Name::<Vec<u8>>::from_str(names[i]).unwrap(), 30, A::from_octets(10, 0, 0, i as u8))).is_ok()),
            Op::Limited(i, k) => {
                a.set_push_limit(before.len() + k);
                let r = a.push((Name::<Vec<u8>>::from_str(names[i]).unwrap(), 30, A::from_octets(10, 0, 0, i as u8))).is_ok();
                a.clear_push_limit();
                (i, r)
            }
        };
        if ok {
            model.push(i);
        } else if a.as_slice() != &before[..] {
            return Err(format!("[{}] {:?} failed but changed the message ({} -> {} octets)", what, op, before.len(), a.as_slice().len()));
        }
    }
    let bytes = a.as_slice().to_vec();
    let msg = Message::from_octets(bytes.clone()).map_err(|_| "short message".to_string())?;
    if usize::from(msg.header_counts().ancount()) != model.len() {
        return Err(format!("[{}] ANCOUNT {} but {} pushes succeeded", what, msg.header_counts().ancount(), model.len()));
    }
    let ans = msg.answer().map_err(|e| format!("[{}] answer section does not parse: {}", what, e))?;
    let mut got = Vec::new();
    for r in ans.limit_to::<A>() {
        let r = r.map_err(|e| format!("[{}] record does not parse: {}; message {:02x?}", what, e, bytes))?;
        got.push((r.owner().to_string(), r.data().addr().octets()[3] as usize));
    }
    let want: Vec<(String, usize)> = model.iter().map(|&i| (names[i].trim_end_matches('.').to_string(), i)).collect();
    if got != want {
        return Err(format!("[{}] pushed {:?} but the message reads back as {:?}; message {:02x?}", what, want, got, bytes));
    }
    Ok(())
}

const SHAPES: [&str; 16] = [
    "www.www.example.com.", "www.example.com.", "example.com.", "com.", ".", "1.1.168.192.in-addr.arpa.", "168.192.in-addr.arpa.",
    "a.b.a.b.example.org.", "b.a.b.example.org.", "a.b.example.org.", "WWW.Example.COM.", "www.example.com.www.example.com.",
    "example.", "example.example.", "aaaaaaaaaaaaaaaaaaaaaaaaaaaaaaaaaaaaaaaaaaaaaaaaaaaaaaaaaaaaaaa.aaaaaaaaaaaaaaaaaaaaaaaaaaaaaaaaaaaaaaaaaaaaaaaaaaaaaaaaaaaaaaa.example.com.",
    "x.www.www.example.com.",
];

fn run_shapes<T: Composer>(what: &str, target: T, pick: [usize; 3]) -> Result<(), String> {
    use domain::rdata::Mx;
    let mut mb = MessageBuilder::from_target(target).map_err(|_| "from_target".to_string())?;
    mb.header_mut().set_id(1);
    let mut q = mb.question();
    q.push((Name::<Vec<u8>>::from_str(SHAPES[pick[0]]).unwrap(), Rtype::MX)).map_err(|_| "question".to_string())?;
    let mut a = q.answer();
    let mut want = Vec::new();
    for k in 0..3 {
        let owner = Name::<Vec<u8>>::from_str(SHAPES[pick[k]]).unwrap();
        let exch = Name::<Vec<u8>>::from_str(SHAPES[pick[(k + 1) % 3]]).unwrap();
        a.push((owner.clone(), 30, Mx::new(k as u16, exch.clone()))).map_err(|_| format!("[{what}] push {k} failed"))?;
        want.push((owner, k as u16, exch));
    }
    let bytes = a.as_slice().to_vec();
    let msg = Message::from_octets(bytes.clone()).map_err(|_| "short message".to_string())?;
    let qn = msg.question().next().ok_or("no question")?.map_err(|e| format!("[{what}] question: {e}; message {bytes:02x?}"))?;
    if qn.qname() != &want[0].0 {
        return Err(format!("[{what}] question name reads back as {}; message {bytes:02x?}", qn.qname()));
    }
    let ans = msg.answer().map_err(|e| format!("[{what}] answer section does not parse: {e}; message {bytes:02x?}"))?;
    let mut got = 0;
    for r in ans.limit_to::<Mx<_>>() {
        let r = r.map_err(|e| format!("[{what}] record {got} does not parse: {e}; message {bytes:02x?}"))?;
        let w = want.get(got).ok_or(format!("[{what}] more records than pushed"))?;
        if r.owner() != &w.0 || r.data().preference() != w.1 || r.data().exchange() != &w.2 {
            return Err(format!(
                "[{what}] record {got}: pushed {} MX {} {} but reads back as {} MX {} {}; message {bytes:02x?}",
                w.0, w.1, w.2, r.owner(), r.data().preference(), r.data().exchange()
            ));
        }
        got += 1;
    }
    if got != 3 {
        return Err(format!("[{what}] {got} records read back, 3 pushed; message {bytes:02x?}"));
    }
    Ok(())
}

fn main() {
    std::panic::set_hook(Box::new(|_| {}));
    let mut shapes = 0u64;
    for i in 0..SHAPES.len() {
        for j in 0..SHAPES.len() {
            for k in 0..SHAPES.len() {
                let pick = [i, j, k];
                shapes += 1;
                let r = std::panic::catch_unwind(move || {
                    run_shapes("no compressor", Vec::<u8>::new(), pick)?;
                    run_shapes("StaticCompressor", StaticCompressor::new(Vec::<u8>::new()), pick)?;
                    run_shapes("TreeCompressor", TreeCompressor::new(Vec::<u8>::new()), pick)?;
                    run_shapes("HashCompressor", HashCompressor::new(Vec::<u8>::new()), pick)
                });
                let names = [SHAPES[i], SHAPES[j], SHAPES[k]];
                match r {
                    Ok(Ok(())) => {}
                    Ok(Err(e)) => {
                        println!("FAILING INPUT: MX records with owners / exchanges {names:?}\n{e}");
                        std::process::exit(1);
                    }
                    Err(_) => {
                        println!("FAILING INPUT: MX records with owners / exchanges {names:?}\nPANIC");
                        std::process::exit(1);
                    }
                }
            }
        }
    }
    let mut ops = Vec::new();
    for i in 0..3 {
        ops.push(Op::Push(i));
        for k in [1usize, 5, 12] {
            ops.push(Op::Limited(i, k));
        }
    }
    let mut n = 0u64;
    for len in 0..=4usize {
        for mut idx in 0..ops.len().pow(len as u32) {
            let mut seq = Vec::new();
            for _ in 0..len {
                seq.push(ops[idx % ops.len()]);
                idx /= ops.len();
            }
            n += 1;
            let s = seq.clone();
            let r = std::panic::catch_unwind(move || {
                for names in [&NAMES, &NAMES_PREFIX] {
                    run("no compressor", Vec::<u8>::new(), &s, names)?;
                    run("StaticCompressor", StaticCompressor::new(Vec::<u8>::new()), &s, names)?;
                    run("TreeCompressor", TreeCompressor::new(Vec::<u8>::new()), &s, names)?;
                    run("HashCompressor", HashCompressor::new(Vec::<u8>::new()), &s, names)?;
                }
                Ok::<(), String>(())
            });
            match r {
                Ok(Ok(())) => {}
                Ok(Err(e)) => {
                    println!("FAILING INPUT: answer pushes {:?} (owners {:?} or {:?})\n{}", seq, NAMES, NAMES_PREFIX, e);
                    std::process::exit(1);
                }
                Err(_) => {
                    println!("FAILING INPUT: answer pushes {:?} (owners {:?})\nPANIC", seq, NAMES);
                    std::process::exit(1);
                }
            }
        }
    }
    println!("OK: {} push sequences and {} name-shape triples x 4 targets read back as pushed", n, shapes);
}
