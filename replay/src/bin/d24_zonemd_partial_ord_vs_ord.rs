//! D24 (C04): `PartialOrd for Zonemd` compared the serial with RFC 1982 serial arithmetic (undefined for values
//! 2^31 apart, wrapping) while `Ord` and `CanonicalOrd` compare it as a number: `partial_cmp` could be `None` or
//! the opposite of `cmp`.
use core::cmp::Ordering;
use domain::base::iana::{ZonemdAlgorithm, ZonemdScheme};
use domain::base::Serial;
use domain::rdata::zonemd::Zonemd;

fn z(serial: u32) -> Zonemd<Vec<u8>> {
    Zonemd::new(Serial(serial), ZonemdScheme::SIMPLE, ZonemdAlgorithm::SHA384, vec![0u8; 48])
}
fn check(a: u32, b: u32) -> bool {
    let (x, y) = (z(a), z(b));
    let (p, c) = (x.partial_cmp(&y), x.cmp(&y));
    println!("serial {:#x} vs {:#x}: partial_cmp = {:?}, cmp = {:?}", a, b, p, c);
    if p != Some(c) || (x < y) != (c == Ordering::Less) {
        println!("FAIL: PartialOrd and Ord disagree");
        return false;
    }
    true
}
fn main() {
    let mut ok = true;
    ok &= check(0, 0x8000_0000);
    ok &= check(0, 0xFFFF_FFFF);
    ok &= check(1, 2);
    if !ok {
        std::process::exit(1);
    }
    println!("OK");
}
