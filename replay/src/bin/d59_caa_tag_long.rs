//! D59: CaaTag::from_octets / from_slice check only the character set of the tag. The documentation (and the safety
//! condition of the unchecked constructors they call) say "at most 255 octets", but a longer alphanumeric string is
//! accepted; the CharStr inside then breaks its invariant: compose_len() / rdlen() panic ("long charstr") and
//! compose() would write a truncated length octet.
use domain::base::rdata::ComposeRecordData;
use domain::rdata::caa::{Caa, CaaFlags, CaaTag};

fn main() {
    let hook = std::panic::take_hook();
    std::panic::set_hook(Box::new(|_| {}));
    let mut bad: Vec<String> = Vec::new();
    for len in [0usize, 1, 5, 254, 255, 256, 257, 300, 511, 512, 70000] {
        let tag = vec![b'a'; len];
        let r1 = CaaTag::from_octets(tag.clone()).is_ok();
        let r2 = CaaTag::from_slice(&tag).is_ok();
        if r1 != (len <= 255) { bad.push(format!("CaaTag::from_octets on {} alphanumeric octets: {}", len, if r1 { "accepted" } else { "refused" })); }
        if r2 != (len <= 255) { bad.push(format!("CaaTag::from_slice on {} alphanumeric octets: {}", len, if r2 { "accepted" } else { "refused" })); }
        if let Ok(t) = CaaTag::from_octets(tag.clone()) {
            let caa = Caa::new(CaaFlags::default(), t, b"ca.example.net".to_vec());
            let res = std::panic::catch_unwind(move || {
                let rdlen = caa.rdlen(false);
                let mut out: Vec<u8> = Vec::new();
                caa.compose_rdata(&mut out).unwrap();
                (rdlen, out.len())
            });
            match res {
                Err(_) => bad.push(format!("a CAA value with an accepted tag of {} octets: rdlen()/compose_rdata() panic", len)),
                Ok((rdlen, n)) => {
                    if rdlen != Some(n as u16) || n != 1 + 1 + len + 14 {
                        bad.push(format!("a CAA value with an accepted tag of {} octets: rdlen {:?}, {} octets written", len, rdlen, n));
                    }
                }
            }
        }
    }
    // character set unchanged
    if CaaTag::from_octets(b"iss-ue".to_vec()).is_ok() { bad.push("a tag with '-' accepted".into()); }
    if CaaTag::from_octets(b"issue9".to_vec()).is_err() { bad.push("an alphanumeric tag refused".into()); }
    std::panic::set_hook(hook);
    if let Some(b) = bad.first() {
        for b in &bad { println!("{}", b); }
        println!("FAIL {}", b);
        std::process::exit(1);
    }
    println!("OK CAA tags of more than 255 octets are refused; accepted tags compose");
}
