//! C05 native search (a bounded exploration of the real crate, run on every check; it also supplies the concrete input when a Verus obligation of the property fails):
//! on the real crate, for small values of 20 record data types (boundary field values, mixed-case names, empty and
//! short octet fields, type bitmaps with full 32-octet windows): rdlen() equals the number of octets compose_rdata()
//! writes; parsing those octets gives an equal value and consumes everything; the canonical form equals the wire form
//! of the value with exactly the names RFC 4034 6.2 / RFC 6840 5.1 list lower-cased; and the same value inside
//! ZoneRecordData composes, composes canonically and reports its length identically.
use domain::base::iana::{DigestAlgorithm, Nsec3HashAlgorithm, Rtype, SecurityAlgorithm};
use domain::base::name::Name;
use domain::base::rdata::{ComposeRecordData, ParseRecordData};
use domain::base::{Serial, Ttl};
use domain::rdata::dnssec::{RtypeBitmap, Timestamp};
use domain::rdata::nsec3::{Nsec3Salt, OwnerHash};
use domain::rdata::*;
use octseq::parse::Parser;
use std::fmt::Debug;
use std::str::FromStr;

type N = Name<Vec<u8>>;
type Z = ZoneRecordData<Vec<u8>, N>;

fn fail(what: &str, v: &dyn Debug, detail: String) -> ! {
    println!("FAILING INPUT ({}): {:?}\n{}", what, v, detail);
    std::process::exit(1);
}
fn wire<D: ComposeRecordData>(d: &D) -> Vec<u8> {
    let mut v = Vec::new();
    d.compose_rdata(&mut v).unwrap();
    v
}
fn canon<D: ComposeRecordData>(d: &D) -> Vec<u8> {
    let mut v = Vec::new();
    d.compose_canonical_rdata(&mut v).unwrap();
    v
}

/// `x`: the value; `lowered`: the same value with the names the RFCs list lower-cased (== x for other types)
fn check<D>(what: &str, x: D, lowered: D, n: &mut u64)
where
    D: ComposeRecordData + Debug + Clone + PartialEq + Into<Z>,
{
    *n += 1;
    let w = wire(&x);
    if x.rdlen(false) != Some(w.len() as u16) {
        fail(what, &x, format!("rdlen() = {:?} but compose_rdata wrote {} octets {:02x?}", x.rdlen(false), w.len(), w));
    }
    let z: Z = x.clone().into();
    let mut p = Parser::from_ref(&w[..]);
    let rt = wire_rtype(&z);
    match ZoneRecordData::<&[u8], domain::base::name::ParsedName<&[u8]>>::parse_rdata(rt, &mut p) {
        Ok(Some(back)) => {
            if back != z || p.remaining() != 0 {
                fail(what, &x, format!("composed {:02x?}, parsed back as {:?} with {} octets left", w, back, p.remaining()));
            }
        }
        other => fail(what, &x, format!("composed {:02x?} does not parse back: {:?}", w, other.map(|o| o.is_some()).map_err(|e| e.to_string()))),
    }
    let c = canon(&x);
    let expect = wire(&lowered);
    if c != expect {
        fail(what, &x, format!("canonical form {:02x?}, expected {:02x?}", c, expect));
    }
    // through the reference forwarders (`impl ComposeRecordData for &T`): generic code composes `&D`
    if wire(&&x) != w || canon(&&x) != c || (&x).rdlen(false) != x.rdlen(false) {
        fail(what, &x, format!("through a reference: wire {:02x?} canonical {:02x?}; by value: wire {:02x?} canonical {:02x?}", wire(&&x), canon(&&x), w, c));
    }
    // as a record in a message under each name compressor: the RDLENGTH written must frame the data (rdlen(true) /
    // the length patched in afterwards), and the record must read back as the value
    message_roundtrip(what, &x, &z);
    // the same value inside the zone record data enum
    if wire(&z) != w || canon(&z) != c || z.rdlen(false) != x.rdlen(false) {
        fail(what, &x, format!("inside ZoneRecordData: wire {:02x?} canonical {:02x?} rdlen {:?}; the value itself: wire {:02x?} canonical {:02x?} rdlen {:?}", wire(&z), canon(&z), z.rdlen(false), w, c, x.rdlen(false)));
    }
}
fn message_roundtrip<D>(what: &str, x: &D, z: &Z)
where
    D: ComposeRecordData + Debug + Clone,
{
    use domain::base::message_builder::{HashCompressor, StaticCompressor, TreeCompressor};
    use domain::base::{Message, MessageBuilder, Record, Rtype as RT};
    let owner: N = Name::from_str("Host.Example.COM.").unwrap();
    let q: N = Name::from_str("mail.example.com.").unwrap();
    let build = |kind: u8| -> Option<Vec<u8>> {
        macro_rules! go {
            ($target:expr, $finish:expr) => {{
                let mut mb = MessageBuilder::from_target($target).ok()?.question();
                mb.push((&q, RT::ANY)).ok()?;
                let mut ab = mb.answer();
                ab.push(Record::new(&owner, domain::base::iana::Class::IN, Ttl::from_secs(60), x.clone())).ok()?;
                ab.push(Record::new(&q, domain::base::iana::Class::IN, Ttl::from_secs(61), x.clone())).ok()?;
                Some($finish(ab.finish()))
            }};
        }
        match kind {
            0 => go!(Vec::new(), |t: Vec<u8>| t),
            1 => go!(StaticCompressor::new(Vec::new()), |t: StaticCompressor<Vec<u8>>| t.into_target()),
            2 => go!(TreeCompressor::new(Vec::new()), |t: TreeCompressor<Vec<u8>>| t.into_target()),
            _ => go!(HashCompressor::new(Vec::new()), |t: HashCompressor<Vec<u8>>| t.into_target()),
        }
    };
    for kind in 0..4u8 {
        let bytes = match build(kind) {
            Some(b) => b,
            None => continue, // does not fit a message (65535-octet record data): not this check's subject
        };
        let cname = ["no compressor", "StaticCompressor", "TreeCompressor", "HashCompressor"][kind as usize];
        let msg = match Message::from_octets(bytes.clone()) {
            Ok(m) => m,
            Err(_) => fail(what, x, format!("[{cname}] the built message is not a message")),
        };
        let mut count = 0;
        let ans = match msg.answer() {
            Ok(a) => a,
            Err(e) => fail(what, x, format!("[{cname}] answer section unreadable: {e}")),
        };
        for rec in ans {
            let rec = match rec {
                Ok(r) => r,
                Err(e) => fail(what, x, format!("[{cname}] record {count} of the built message is unreadable: {e}; message {bytes:02x?}")),
            };
            match rec.to_record::<ZoneRecordData<_, _>>() {
                Ok(Some(r)) => {
                    if r.data() != z {
                        fail(what, x, format!("[{cname}] record {count} reads back as {:?}", r.data()));
                    }
                }
                other => fail(what, x, format!("[{cname}] record {count} does not read back as its type: {:?}", other.map(|o| o.is_some()).map_err(|e| e.to_string()))),
            }
            count += 1;
        }
        if count != 2 {
            fail(what, x, format!("[{cname}] {count} answer records read, 2 were pushed"));
        }
        // nothing may be left over behind the two records: the RDLENGTHs frame the data exactly
        if let Ok(add) = msg.additional() {
            if add.pos() != bytes.len() {
                fail(what, x, format!("[{cname}] {} octets of the message lie behind the last record", bytes.len() - add.pos()));
            }
        }
    }
}
fn wire_rtype(z: &Z) -> Rtype {
    use domain::base::rdata::RecordData;
    z.rtype()
}

fn main() {
    let nm = |s: &str| -> N { Name::from_str(s).unwrap() };
    let names = ["Mail.Example.COM.", "a.b.", ".", "x\\065Y.z."];
    let low = |s: &str| s.to_ascii_lowercase().replace("\\065", "a");
    let long255 = [0xA5u8; 255];
    let octs: [&[u8]; 5] = [b"", b"\x00", b"\xff\x00\xfe", b"0123456789abcdef0123456789abcdef", &long255];
    let mut n = 0u64;
    for a in [[0u8, 0, 0, 0], [255, 255, 255, 255], [10, 0, 0, 1]] {
        let x = A::from_octets(a[0], a[1], a[2], a[3]);
        check("A", x.clone(), x, &mut n);
    }
    for s in ["::", "::1", "ffff:ffff:ffff:ffff:ffff:ffff:ffff:ffff", "2001:db8::8000:0:1", "::8000:0:0:1", "8000::"] {
        let x = Aaaa::from_str(s).unwrap();
        check("AAAA", x.clone(), x, &mut n);
    }
    for s in names {
        for p in [0u16, 1, 256, 65535] {
            check("MX", Mx::new(p, nm(s)), Mx::new(p, nm(&low(s))), &mut n);
            check("SRV", Srv::new(p, 65535 - p, p ^ 0x00ff, nm(s)), Srv::new(p, 65535 - p, p ^ 0x00ff, nm(&low(s))), &mut n);
        }
        check("NS", Ns::new(nm(s)), Ns::new(nm(&low(s))), &mut n);
        check("CNAME", Cname::new(nm(s)), Cname::new(nm(&low(s))), &mut n);
        check("PTR", Ptr::new(nm(s)), Ptr::new(nm(&low(s))), &mut n);
        check("DNAME", Dname::new(nm(s)), Dname::new(nm(&low(s))), &mut n);
        for serial in [0u32, 0x8000_0000, u32::MAX] {
            let soa = |a: &str, b: &str| Soa::new(nm(a), nm(b), Serial(serial), Ttl::from_secs(serial), Ttl::from_secs(1), Ttl::from_secs(u32::MAX), Ttl::from_secs(0));
            check("SOA", soa(s, names[0]), soa(&low(s), &low(names[0])), &mut n);
        }
        check("MB", Mb::new(nm(s)), Mb::new(nm(&low(s))), &mut n);
        check("MD", Md::new(nm(s)), Md::new(nm(&low(s))), &mut n);
        check("MF", Mf::new(nm(s)), Mf::new(nm(&low(s))), &mut n);
        check("MG", Mg::new(nm(s)), Mg::new(nm(&low(s))), &mut n);
        check("MR", Mr::new(nm(s)), Mr::new(nm(&low(s))), &mut n);
        // RFC 4034 6.2 lists MINFO, RP and NAPTR among the types whose embedded names are lower-cased
        check("MINFO", Minfo::new(nm(s), nm(names[0])), Minfo::new(nm(&low(s)), nm(&low(names[0]))), &mut n);
        check("RP", Rp::new(nm(s), nm(names[0])), Rp::new(nm(&low(s)), nm(&low(names[0]))), &mut n);
        for (o, p) in [(0u16, 65535u16), (256, 1)] {
            let cs = |b: &[u8]| domain::base::charstr::CharStr::from_octets(b.to_vec()).unwrap();
            let naptr = |r: &str| Naptr::new(o, p, cs(b"U"), cs(b"E2U+sip"), cs(b"!^.*$!sip:info@Example.COM!"), nm(r));
            check("NAPTR", naptr(s), naptr(&low(s)), &mut n);
            let naptr = |r: &str| Naptr::new(o, p, cs(b""), cs(&[0xffu8; 255]), cs(b""), nm(r));
            check("NAPTR", naptr(s), naptr(&low(s)), &mut n);
        }
        // IPSECKEY (RFC 4025): the gateway name is not in the RFC 4034 6.2 list: canonical form == wire form
        for key in [&b""[..], &b"\x01\x02\x03"[..]] {
            let alg = if key.is_empty() { 0u8 } else { 2 };
            let x = Ipseckey::new(10, alg.into(), domain::rdata::ipseckey::IpseckeyGateway::Name(nm(s)), key.to_vec());
            check("IPSECKEY(name)", x.clone(), x, &mut n);
        }
        // RFC 6840 5.1: the NSEC next name and the RRSIG signer... NSEC is NOT lower-cased; RRSIG's signer is
        let mut b = RtypeBitmap::<Vec<u8>>::builder();
        for t in [Rtype::A, Rtype::from_int(255), Rtype::from_int(256), Rtype::from_int(511), Rtype::from_int(65535)] {
            b.add(t).unwrap();
        }
        let bm = b.finalize();
        check("NSEC", Nsec::new(nm(s), bm.clone()), Nsec::new(nm(s), bm.clone()), &mut n);
        let rrsig = |signer: &str| Rrsig::new(Rtype::MX, SecurityAlgorithm::ED25519, 3, Ttl::from_secs(300), Timestamp::from(u32::MAX), Timestamp::from(0), 65535, nm(signer), vec![1u8, 2, 3]).unwrap();
        check("RRSIG", rrsig(s), rrsig(&low(s)), &mut n);
    }
    for o in octs {
        for k in [0u16, 256, 65535] {
            let x = Dnskey::new(k, 3, SecurityAlgorithm::from_int((k & 0xff) as u8), o.to_vec()).unwrap();
            check("DNSKEY", x.clone(), x, &mut n);
            let x = Ds::new(k, SecurityAlgorithm::from_int(8), DigestAlgorithm::from_int(2), o.to_vec()).unwrap();
            check("DS", x.clone(), x, &mut n);
            let x = Cds::new(k, SecurityAlgorithm::from_int(8), DigestAlgorithm::from_int(2), o.to_vec()).unwrap();
            check("CDS", x.clone(), x, &mut n);
            let x = Cdnskey::new(k, 3, SecurityAlgorithm::from_int((k & 0xff) as u8), o.to_vec()).unwrap();
            check("CDNSKEY", x.clone(), x, &mut n);
        }
        let x = Tlsa::new(3.into(), 1.into(), 2.into(), o.to_vec());
        check("TLSA", x.clone(), x, &mut n);
        let x = Sshfp::new(1.into(), 2.into(), o.to_vec());
        check("SSHFP", x.clone(), x, &mut n);
        let x = Openpgpkey::new(o.to_vec());
        check("OPENPGPKEY", x.clone(), x, &mut n);
        if o.len() >= 12 {
            for serial in [0u32, 0x8000_0000, u32::MAX] {
                let x = Zonemd::new(Serial(serial), 1.into(), 241.into(), o.to_vec());
                check("ZONEMD", x.clone(), x, &mut n);
            }
        }
        {
            use domain::rdata::ipseckey::IpseckeyGateway;
            let alg = if o.is_empty() { 0u8 } else { 1 };
            for gw in [IpseckeyGateway::<N>::None, IpseckeyGateway::Ipv4(A::from_octets(192, 0, 2, 255)), IpseckeyGateway::Ipv6(Aaaa::from_str("2001:db8::ff00").unwrap())] {
                let x = Ipseckey::new(255, alg.into(), gw, o.to_vec());
                check("IPSECKEY", x.clone(), x, &mut n);
            }
        }
        for tag in [&b"issue"[..], b"i", b"ISSUEWILD0"] {
            let t = domain::rdata::caa::CaaTag::from_octets(tag.to_vec()).unwrap();
            for flags in [0u8, 0x80, 0xff] {
                let x = Caa::new(domain::rdata::caa::CaaFlags::new(flags), t.clone(), o.to_vec());
                check("CAA", x.clone(), x, &mut n);
            }
        }
        if o.len() <= 255 {
            for it in [0u16, 1, 256] {
                let x = Nsec3param::new(Nsec3HashAlgorithm::SHA1, (it & 1) as u8, it, Nsec3Salt::from_octets(o.to_vec()).unwrap());
                check("NSEC3PARAM", x.clone(), x, &mut n);
                let mut b = RtypeBitmap::<Vec<u8>>::builder();
                for t in [Rtype::NS, Rtype::from_int(248), Rtype::from_int(255)] {
                    b.add(t).unwrap();
                }
                let x = Nsec3::new(Nsec3HashAlgorithm::SHA1, 1, it, Nsec3Salt::from_octets(o.to_vec()).unwrap(), OwnerHash::from_octets(vec![7u8; 20]).unwrap(), b.finalize());
                check("NSEC3", x.clone(), x, &mut n);
            }
        }
    }
    for strings in [&[&b"abc"[..]][..], &[&b""[..], &b"x y"[..]][..], &[&[0xffu8; 255][..]][..]] {
        let mut b = domain::rdata::rfc1035::TxtBuilder::<Vec<u8>>::new();
        for s in strings {
            b.append_charstr(&domain::base::charstr::CharStr::from_octets(s.to_vec()).unwrap()).unwrap();
        }
        let x = b.finish().unwrap();
        check("TXT", x.clone(), x, &mut n);
    }
    for l in [0usize, 1, 127, 128, 200, 255] {
        let cs = |b: u8| domain::base::charstr::CharStr::from_octets(vec![b; l]).unwrap();
        let x = Hinfo::new(cs(b'c'), cs(b'o'));
        check("HINFO", x.clone(), x, &mut n);
    }
    // the 65 535-octet limit of the key record data: the constructors accept a payload exactly when the four fixed octets
    // and the payload fit, and an accepted value reports the length it writes
    for len in [65531usize, 65532] {
        let payload = vec![0x5Au8; len];
        macro_rules! limit {
            ($what:expr, $res:expr) => {
                n += 1;
                match $res {
                    Ok(x) => {
                        if len > 65531 {
                            fail($what, &len, format!("the constructor accepts a payload of {} octets (record data of {} octets)", len, len + 4));
                        }
                        let r = std::panic::catch_unwind(|| (x.rdlen(false), wire(&x).len()));
                        match r {
                            Ok((rd, w)) if rd == Some(w as u16) && w == len + 4 => {}
                            other => fail($what, &len, format!("payload of {} octets: rdlen / octets written = {:?}", len, other.ok())),
                        }
                    }
                    Err(_) => {
                        if len <= 65531 {
                            fail($what, &len, format!("the constructor rejects a payload of {} octets (record data of {} octets)", len, len + 4));
                        }
                    }
                }
            };
        }
        limit!("DNSKEY limit", Dnskey::new(257, 3, SecurityAlgorithm::from_int(8), payload.clone()));
        limit!("CDNSKEY limit", Cdnskey::new(257, 3, SecurityAlgorithm::from_int(8), payload.clone()));
        limit!("DS limit", Ds::new(1, SecurityAlgorithm::from_int(8), DigestAlgorithm::from_int(2), payload.clone()));
        limit!("CDS limit", Cds::new(1, SecurityAlgorithm::from_int(8), DigestAlgorithm::from_int(2), payload.clone()));
    }
    println!("OK: {} values compose, parse back, canonicalise and dispatch consistently", n);
}
