//! D4 (C02): names first written at offsets 0x4000..0xBFFF are remembered by the compressors and later
//! referenced with `pos | 0xC000`, which only has 14 offset bits: the pointer resolves somewhere else.
use domain::base::iana::Class;
use domain::base::message_builder::{HashCompressor, MessageBuilder, StaticCompressor, TreeCompressor};
use domain::base::name::Name;
use domain::base::{Message, Ttl};
use domain::rdata::{Txt, A};
use octseq::builder::{FreezeBuilder, OctetsBuilder, Truncate};
use std::str::FromStr;

fn run<T>(target: T, what: &str) -> bool
where
    T: domain::base::wire::Composer + FreezeBuilder<Octets = Vec<u8>> + AsRef<[u8]> + AsMut<[u8]> + OctetsBuilder + Truncate,
{
    let filler = Name::<Vec<u8>>::from_str("filler.example.").unwrap();
    let late = Name::<Vec<u8>>::from_str("late.name.test.").unwrap();
    let mut b = MessageBuilder::from_target(target).ok().expect("target").answer();
    let txt = Txt::<Vec<u8>>::build_from_slice(&[b'x'; 200]).unwrap();
    while b.as_slice().len() < 0x4100 {
        b.push((&filler, Class::IN, Ttl::from_secs(1), txt.clone())).unwrap();
    }
    // first occurrence of `late` is written at an offset >= 0x4000, the second may be compressed against it
    b.push((&late, Class::IN, Ttl::from_secs(1), A::from_octets(192, 0, 2, 1))).unwrap();
    b.push((&late, Class::IN, Ttl::from_secs(1), A::from_octets(192, 0, 2, 2))).unwrap();
    let octets = b.finish().freeze();
    let msg = Message::from_octets(octets).unwrap();
    let mut ok = true;
    let mut n_late = 0;
    for rec in msg.answer().unwrap() {
        let rec = match rec { Ok(r) => r, Err(e) => { println!("{what}: parse error {e}"); ok = false; break; } };
        if rec.rtype() == domain::base::iana::Rtype::A {
            n_late += 1;
            let owner = rec.owner().to_string();
            if owner != "late.name.test" && owner != "late.name.test." {
                println!("{what}: record pushed with owner late.name.test. reads back as {owner:?}");
                ok = false;
            }
        }
    }
    if n_late != 2 { println!("{what}: expected 2 A records, read {n_late}"); ok = false; }
    if ok { println!("{what}: OK"); }
    ok
}

fn main() {
    let a = run(StaticCompressor::new(Vec::new()), "StaticCompressor");
    let b = run(TreeCompressor::new(Vec::new()), "TreeCompressor");
    let c = run(HashCompressor::new(Vec::new()), "HashCompressor");
    if !(a && b && c) { std::process::exit(1); }
}
