//! D34 (C01): `Txt::parse` accepts empty record data (the zone-file reader relies on it for `TXT \# 0`), but
//! `as_flat_slice()` indexed octet 0 of the data: it panicked on a TXT record with RDLENGTH 0 taken from a message.
use domain::base::Message;
use domain::rdata::Txt;

fn main() {
    // header with ANCOUNT = 1, then the record `. TXT IN ttl=0 rdlen=0`
    let mut msg = vec![0u8; 12];
    msg[7] = 1;
    msg.extend_from_slice(b"\x00\x00\x10\x00\x01\x00\x00\x00\x00\x00\x00");
    let r = std::panic::catch_unwind(move || {
        let m = Message::from_octets(msg).unwrap();
        let mut it = m.answer().unwrap().limit_to::<Txt<_>>();
        match it.next() {
            Some(Ok(rec)) => {
                let txt = rec.into_data();
                let flat = txt.as_flat_slice().map(|s| s.len());
                format!("parsed; as_flat_slice = {:?}, {} strings", flat, txt.iter().count())
            }
            Some(Err(e)) => format!("refused: {}", e),
            None => "no record".to_string(),
        }
    });
    match r {
        Ok(s) => {
            println!("TXT record with RDLENGTH 0: {}", s);
            println!("OK");
        }
        Err(_) => {
            println!("FAIL: TXT record with RDLENGTH 0 is parsed and as_flat_slice() panics");
            std::process::exit(1);
        }
    }
}
