//! D19 (C04): `PartialOrd for Nsec3` compared salt and hashed owner as plain octet strings while `Ord for Nsec3`
//! is the canonical order (length octet first): for salts (or hashes) of different length `a < b` and
//! `a.cmp(&b) == Greater` could both hold.
use core::cmp::Ordering;
use domain::base::iana::Nsec3HashAlgorithm;
use domain::rdata::dnssec::RtypeBitmap;
use domain::rdata::nsec3::{Nsec3, Nsec3Salt, OwnerHash};

fn nsec3(salt: &[u8], hash: &[u8]) -> Nsec3<Vec<u8>> {
    Nsec3::new(
        Nsec3HashAlgorithm::SHA1,
        0,
        0,
        Nsec3Salt::from_octets(salt.to_vec()).unwrap(),
        OwnerHash::from_octets(hash.to_vec()).unwrap(),
        RtypeBitmap::<Vec<u8>>::builder().finalize(),
    )
}

fn check(what: &str, a: &Nsec3<Vec<u8>>, b: &Nsec3<Vec<u8>>) -> bool {
    let (p, c) = (a.partial_cmp(b), a.cmp(b));
    println!("{}: partial_cmp = {:?}, cmp = {:?}, a < b = {}", what, p, c, a < b);
    if p != Some(c) || (a < b) != (c == Ordering::Less) {
        println!("FAIL: PartialOrd and Ord disagree");
        return false;
    }
    true
}

fn main() {
    let h = [7u8; 20];
    let mut ok = true;
    ok &= check("salt AA vs 01020304", &nsec3(&[0xAA], &h), &nsec3(&[1, 2, 3, 4], &h));
    ok &= check("hash 20xFF vs 21x00", &nsec3(&[], &[0xFF; 20]), &nsec3(&[], &[0; 21]));
    ok &= check("same length salts", &nsec3(&[1, 2], &h), &nsec3(&[1, 3], &h));
    if !ok {
        std::process::exit(1);
    }
    println!("OK");
}
