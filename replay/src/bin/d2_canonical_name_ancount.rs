//! D2 (C01): Message::canonical_name panics (debug) / answers None (release) when ANCOUNT = 0xFFFF.
use domain::base::Message;
fn main() {
    // QR, qdcount=1, ancount=0xFFFF; question: root name, type A, class IN; no answer octets follow
    let buf: [u8; 17] = [0, 0, 0x80, 0, 0, 1, 0xFF, 0xFF, 0, 0, 0, 0, 0, 0, 1, 0, 1];
    let msg = Message::from_slice(&buf).unwrap();
    let r = std::panic::catch_unwind(|| msg.canonical_name().map(|n| n.to_string()));
    match r {
        Ok(Some(n)) => println!("OK: canonical_name = {:?}", n),
        Ok(None) => { println!("WRONG: canonical_name() == None although the question name is the canonical name"); std::process::exit(1); }
        Err(_) => { println!("PANIC in Message::canonical_name with ANCOUNT = 0xFFFF"); std::process::exit(1); }
    }
}
