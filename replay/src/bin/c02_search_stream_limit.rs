//! C02 -- bounded exploration of "with a stream target the two-octet length prefix always equals the message length,
//! up to the 65535-octet limit" on the real crate: messages built over StreamTarget<Vec<u8>> (alone and under each
//! compressor) are filled with TXT records so that the last push would land the message on every length from 65 530
//! to 65 540 octets. A push that keeps the message within 65 535 octets succeeds; one that would take it past that
//! fails and leaves message and prefix as they were; after every step the prefix equals the message length, and
//! the message parses back to the records pushed.
use domain::base::iana::Class;
use domain::base::message_builder::{HashCompressor, MessageBuilder, StaticCompressor, StreamTarget, TreeCompressor};
use domain::base::{Message, Name, Rtype, Ttl};
use domain::rdata::Txt;

fn fail(msg: String) -> ! {
    println!("FAIL: {msg}");
    std::process::exit(1);
}
fn prefix_ok(stream: &[u8]) -> Result<(), String> {
    let p = u16::from_be_bytes([stream[0], stream[1]]) as usize;
    if p != stream.len() - 2 { return Err(format!("length prefix says {p}, the message is {} octets long", stream.len() - 2)); }
    Ok(())
}
/// TXT record data of exactly `n` octets (n >= 1): character strings of up to 255 content octets
fn txt_of(n: usize) -> Txt<Vec<u8>> {
    let mut rdata = Vec::new();
    let mut left = n;
    while left > 0 {
        let take = std::cmp::min(left - 1, 255);
        rdata.push(take as u8);
        rdata.extend(std::iter::repeat(b'x').take(take));
        left -= 1 + take;
    }
    Txt::from_octets(rdata).unwrap()
}
fn scenario(kind: usize, final_len: usize) -> Result<(), String> {
    // header 12 + question (root name 1 + 4) = 17; each TXT record with root owner: 1 + 10 + rdlen
    macro_rules! go { ($builder:expr, $stream:expr) => {{
        let mut q = $builder.question();
        q.push((Name::<Vec<u8>>::root(), Rtype::TXT)).map_err(|e| e.to_string())?;
        let mut a = q.answer();
        let mut pushed = 0usize;
        // sixteen records of 4000 octets of data, then one that decides the final length
        for _ in 0..16 {
            a.push((Name::<Vec<u8>>::root(), Class::IN, Ttl::from_secs(1), txt_of(4000))).map_err(|e| format!("a push well within the limit fails: {e}"))?;
            pushed += 1;
            prefix_ok(&$stream(&a))?;
        }
        let before = $stream(&a);
        let so_far = before.len() - 2;
        let need = final_len - so_far - 11;
        let r = a.push((Name::<Vec<u8>>::root(), Class::IN, Ttl::from_secs(1), txt_of(need)));
        let after = $stream(&a);
        prefix_ok(&after)?;
        if final_len <= 65535 {
            if r.is_err() { return Err(format!("a push that brings the message to {final_len} octets is refused")); }
            if after.len() - 2 != final_len { return Err(format!("message is {} octets after the push, {final_len} expected", after.len() - 2)); }
            pushed += 1;
        } else {
            if r.is_ok() { return Err(format!("a push that takes the message to {final_len} octets is accepted (length prefix {:02x}{:02x})", after[0], after[1])); }
            if after != before { return Err(format!("a refused push (to {final_len} octets) changed the message")); }
        }
        let msg = Message::from_octets(after[2..].to_vec()).map_err(|e| e.to_string())?;
        let n = msg.answer().map_err(|e| e.to_string())?.limit_to::<Txt<_>>().filter(|r| r.is_ok()).count();
        if n != pushed || msg.header_counts().ancount() as usize != pushed {
            return Err(format!("{pushed} records pushed, {n} read back, ANCOUNT {}", msg.header_counts().ancount()));
        }
        Ok(())
    }}}
    match kind {
        0 => go!(MessageBuilder::from_target(StreamTarget::new_vec()).unwrap(), |a: &domain::base::message_builder::AnswerBuilder<StreamTarget<Vec<u8>>>| a.as_target().as_stream_slice().to_vec()),
        1 => go!(MessageBuilder::from_target(StaticCompressor::new(StreamTarget::new_vec())).unwrap(), |a: &domain::base::message_builder::AnswerBuilder<StaticCompressor<StreamTarget<Vec<u8>>>>| a.as_target().as_target().as_stream_slice().to_vec()),
        2 => go!(MessageBuilder::from_target(TreeCompressor::new(StreamTarget::new_vec())).unwrap(), |a: &domain::base::message_builder::AnswerBuilder<TreeCompressor<StreamTarget<Vec<u8>>>>| a.as_target().as_target().as_stream_slice().to_vec()),
        _ => go!(MessageBuilder::from_target(HashCompressor::new(StreamTarget::new_vec())).unwrap(), |a: &domain::base::message_builder::AnswerBuilder<HashCompressor<StreamTarget<Vec<u8>>>>| a.as_target().as_target().as_stream_slice().to_vec()),
    }
}
fn main() {
    let mut n = 0;
    for kind in 0..4 {
        for final_len in 65530usize..=65540 {
            n += 1;
            if let Err(e) = scenario(kind, final_len) {
                fail(format!("{} target, last push to {final_len} octets: {e}", ["plain stream", "StaticCompressor over stream", "TreeCompressor over stream", "HashCompressor over stream"][kind]));
            }
        }
    }
    println!("OK: {n} messages filled to 65530..=65540 octets over stream targets: prefix == length, pushes past 65535 refused and rolled back");
}
