//! C05, OPT options -- a bounded exploration of the real crate (never counted as an obligation): every option code
//! 0..=20 and 65001 with every payload of at most 4 octets over {0x00, 0x01, 0x20, 'a', 0xE9, 0xFF}, and a set of longer,
//! structured payloads (client subnets of both families with every prefix length up to the family's width, cookies of 8
//! to 40 octets, extended errors with text that is and is not UTF-8, key tag lists, a CHAIN name), is parsed as the typed
//! option the library has for that code. For everything that parses: compose_len() is the number of octets
//! compose_option() writes, what is written parses back to an equal value, and composing that value again gives the
//! same octets (so no option taken off the wire re-composes to something else or mis-frames what follows it).
use domain::base::iana::OptionCode;
use domain::base::name::Name;
use domain::base::opt::{AllOptData, ComposeOptData, ParseOptData};
use octseq::parse::Parser;

type Opt<'a> = AllOptData<&'a [u8], Name<&'a [u8]>>;

fn compose(o: &Opt) -> Vec<u8> {
    let mut v = Vec::new();
    o.compose_option(&mut v).unwrap();
    v
}
fn check(code: u16, payload: &[u8], n: &mut u64, parsed: &mut u64) {
    *n += 1;
    let pl: &[u8] = payload;
    let r = std::panic::catch_unwind(move || {
        let mut p = Parser::from_ref(&pl);
        <Opt as ParseOptData<&[u8]>>::parse_option(OptionCode::from_int(code), &mut p).map(|o| (o, p.remaining()))
    });
    let (opt, _left) = match r {
        Err(_) => {
            println!("FAILING INPUT: option code {code}, data {payload:02x?}: parse_option panics");
            std::process::exit(1);
        }
        Ok(Ok((Some(o), left))) => (o, left),
        Ok(_) => return,
    };
    *parsed += 1;
    let w = compose(&opt);
    if opt.compose_len() as usize != w.len() {
        println!("FAILING INPUT: option code {code}, data {payload:02x?} parses as {opt:?}: compose_len() = {} but compose_option wrote {} octets {w:02x?}", opt.compose_len(), w.len());
        std::process::exit(1);
    }
    let wr: &[u8] = &w[..];
    let mut p2 = Parser::from_ref(&wr);
    match <Opt as ParseOptData<&[u8]>>::parse_option(OptionCode::from_int(code), &mut p2) {
        Ok(Some(back)) => {
            let w2 = compose(&back);
            if w2 != w || p2.remaining() != 0 {
                println!("FAILING INPUT: option code {code}, data {payload:02x?}: composed {w:02x?}, which parses back as {back:?} and composes to {w2:02x?} ({} octets left)", p2.remaining());
                std::process::exit(1);
            }
        }
        other => {
            println!("FAILING INPUT: option code {code}, data {payload:02x?} parses as {opt:?} but what it composes to, {w:02x?}, does not parse back: {:?}", other.map(|o| o.is_some()).map_err(|e| e.to_string()));
            std::process::exit(1);
        }
    }
}

fn main() {
    std::panic::set_hook(Box::new(|_| {}));
    let alphabet = [0x00u8, 0x01, 0x20, b'a', 0xE9, 0xFF];
    let codes: Vec<u16> = (0..=20).chain([65001]).collect();
    let (mut n, mut parsed) = (0u64, 0u64);
    for &code in &codes {
        for len in 0..=4usize {
            for mut idx in 0..alphabet.len().pow(len as u32) {
                let mut s = Vec::with_capacity(len);
                for _ in 0..len {
                    s.push(alphabet[idx % alphabet.len()]);
                    idx /= alphabet.len();
                }
                check(code, &s, &mut n, &mut parsed);
            }
        }
    }
    // client subnet (8): family, source prefix, scope prefix, address octets
    for (family, width) in [(1u16, 32u8), (2, 128)] {
        for source in 0..=width {
            for scope in [0u8, source, width] {
                let alen = (source as usize + 7) / 8;
                for fill in [0x00u8, 0xFF, 0xA5] {
                    let mut d = family.to_be_bytes().to_vec();
                    d.push(source);
                    d.push(scope);
                    d.extend(std::iter::repeat(fill).take(alen));
                    check(8, &d, &mut n, &mut parsed);
                    d.push(fill); // one address octet too many
                    check(8, &d, &mut n, &mut parsed);
                }
            }
        }
    }
    // cookie (10): client cookie alone, with server cookies of 8..=32 octets, bad sizes
    for len in 0..=41usize {
        let d: Vec<u8> = (0..len as u8).collect();
        check(10, &d, &mut n, &mut parsed);
    }
    // extended error (15): info code + text
    for text in [&b""[..], b"a", b"caf\xc3\xa9", b"caf\xe9", b"\xff", b"\xe2\x82", b"a\0b", b"text with spaces"] {
        for icode in [0u16, 1, 24, 49152, 65535] {
            let mut d = icode.to_be_bytes().to_vec();
            d.extend_from_slice(text);
            check(15, &d, &mut n, &mut parsed);
        }
    }
    // key tag (14), DAU/DHU/N3U (5, 6, 7), tcp keepalive (11), expire (9), chain (13), padding (12), nsid (3)
    for len in 0..=9usize {
        let d: Vec<u8> = (0..len as u8).map(|i| i.wrapping_mul(37)).collect();
        for code in [3u16, 5, 6, 7, 9, 11, 12, 14] {
            check(code, &d, &mut n, &mut parsed);
        }
    }
    for name in [&b"\x00"[..], b"\x07example\x03com\x00", b"\x07EXAMPLE\x03com\x00", b"\x07example\x03com", b"\x07example\xc0\x00", b"\x40a\x00"] {
        check(13, name, &mut n, &mut parsed);
    }
    println!("OK: {n} (code, data) pairs, {parsed} of them parse as typed options and re-compose exactly");
}
