//! D63 (C18): `IterScanner::convert_token` / `convert_entry` (base/scan.rs) feed a converter from `Symbols::new(..)` in a
//! `for` loop and never ask `Symbols::ok()`: a malformed escape sequence ends the iteration silently, so the token is cut
//! short and what came before it is decoded as if it were the whole text. Ill-formed input is accepted.
use domain::base::scan::{IterScanner, Scanner};
use domain::utils::{base16, base64};
fn main() {
    let mut bad = 0;
    // a token that ends in a lone backslash / an incomplete decimal escape is not Base16 / Base64 text
    for text in ["F0\\", "F0\\1", "F0\\12"] {
        let mut s = IterScanner::<_, Vec<u8>>::new([text].into_iter());
        let r = s.convert_token(base16::SymbolConverter::new());
        println!("base16 token {:?} -> {:?}", text, r);
        if r.is_ok() { bad += 1; }
    }
    for text in ["Zg==\\", "Zm9v\\25"] {
        let mut s = IterScanner::<_, Vec<u8>>::new([text].into_iter());
        let r = s.convert_entry(base64::SymbolConverter::new());
        println!("base64 entry {:?} -> {:?}", text, r);
        if r.is_ok() { bad += 1; }
    }
    if bad > 0 {
        println!("FAILING INPUT: {} ill-formed tokens were decoded without an error", bad);
        std::process::exit(1);
    }
    println!("OK");
}
