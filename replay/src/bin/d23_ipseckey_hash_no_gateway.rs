//! D23 (C04): `Hash for IpseckeyGateway` had `todo!()` in the arm for "no gateway": hashing an IPSECKEY record
//! data without a gateway panicked ("not yet implemented").
use domain::base::iana::IpseckeyAlgorithm;
use domain::base::name::Name;
use domain::rdata::ipseckey::{Ipseckey, IpseckeyGateway};
use std::collections::hash_map::DefaultHasher;
use std::hash::{Hash, Hasher};

fn main() {
    let a: Ipseckey<Vec<u8>, Name<Vec<u8>>> = Ipseckey::new(10, IpseckeyAlgorithm::RSA, IpseckeyGateway::None, vec![1]);
    let b = a.clone();
    let r = std::panic::catch_unwind(move || {
        let (mut h1, mut h2) = (DefaultHasher::new(), DefaultHasher::new());
        a.hash(&mut h1);
        b.hash(&mut h2);
        (a == b, h1.finish() == h2.finish())
    });
    match r {
        Ok((eq, same)) => {
            println!("equal = {}, hashes equal = {}", eq, same);
            if !(eq && same) {
                std::process::exit(1);
            }
            println!("OK");
        }
        Err(_) => {
            println!("FAIL: hashing IPSECKEY data without a gateway panics");
            std::process::exit(1);
        }
    }
}
