//! D49 (C03, open): Chain::new applies the 255-octet limit of absolute names to every chain. A chain of two relative
//! names is itself a relative name (it implements ToRelativeName) and must leave room for the root label, i.e. be at
//! most 254 octets; the library accepts 255 (and its own test base::name::chain::test::name_limit asserts that it
//! does), so the chain cannot be made absolute any more and flattening it gives an over-long relative name.
use domain::base::name::{NameBuilder, RelativeName, ToLabelIter, ToRelativeName};

fn main() {
    let mut b = NameBuilder::new_vec();
    for _ in 0..25 {
        b.append_label(b"123456789").unwrap();
    }
    let left = b.finish(); // 250 octets
    let five = RelativeName::from_octets(b"\x041234".to_vec()).unwrap();
    match left.clone().chain(five) {
        Ok(c) => {
            let len = c.compose_len();
            let flat = c.to_relative_name::<Vec<u8>>();
            println!("chain of a 250-octet and a 5-octet relative name: accepted, compose_len = {len}");
            println!("flattened: a RelativeName of {} octets (the limit of the type is 254)", flat.as_slice().len());
            println!("chaining the root on: {}", if c.chain(domain::base::name::Name::root_vec()).is_ok() { "accepted" } else { "refused (the relative name cannot be made absolute)" });
            println!("FAIL: a relative name of {len} octets exists");
            std::process::exit(1);
        }
        Err(_) => println!("OK: refused"),
    }
}
