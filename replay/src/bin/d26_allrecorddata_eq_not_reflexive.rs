//! D26 (C04): `PartialEq for AllRecordData` had no arm for the `Opt` and `Unknown` variants: such a value was not
//! equal to itself (or to its clone) while `cmp` said `Equal`.
use core::cmp::Ordering;
use domain::base::iana::Rtype;
use domain::base::name::Name;
use domain::base::opt::Opt;
use domain::base::rdata::UnknownRecordData;
use domain::rdata::AllRecordData;

type D = AllRecordData<Vec<u8>, Name<Vec<u8>>>;
fn check(what: &str, x: D) -> bool {
    let y = x.clone();
    let (e, c) = (x == y, x.cmp(&y));
    println!("{}: x == x.clone() is {}, x.cmp(&x.clone()) = {:?}", what, e, c);
    if !e || c != Ordering::Equal {
        println!("FAIL: equality is not reflexive / disagrees with the order");
        return false;
    }
    true
}
fn main() {
    let mut ok = true;
    ok &= check("Unknown(TYPE65280 [01])", AllRecordData::Unknown(UnknownRecordData::from_octets(Rtype::from_int(65280), vec![1u8]).unwrap()));
    ok &= check("Opt(empty)", AllRecordData::Opt(Opt::from_octets(Vec::new()).unwrap()));
    let a: D = AllRecordData::Unknown(UnknownRecordData::from_octets(Rtype::from_int(65280), vec![1u8]).unwrap());
    let b: D = AllRecordData::Unknown(UnknownRecordData::from_octets(Rtype::from_int(65280), vec![2u8]).unwrap());
    if a == b {
        println!("FAIL: different data compare equal");
        ok = false;
    }
    if !ok {
        std::process::exit(1);
    }
    println!("OK");
}
