//! D1 (C01): Label::iter_slice on a compression pointer that points at itself never returns.
use domain::base::name::Label;
use std::sync::mpsc;
use std::time::Duration;
fn main() {
    let (tx, rx) = mpsc::channel();
    std::thread::spawn(move || {
        let msg: &[u8] = b"\xc0\x00";
        let n = Label::iter_slice(msg, 0).count();
        let _ = tx.send(n);
    });
    match rx.recv_timeout(Duration::from_secs(3)) {
        Ok(n) => println!("OK: iter_slice(b\"\\xc0\\x00\", 0) yielded {} labels and terminated", n),
        Err(_) => { println!("HANG: Label::iter_slice(b\"\\xc0\\x00\", 0).next() did not return within 3 s"); std::process::exit(1); }
    }
}
