//! D25 (C04): `PartialEq`, `PartialOrd` and `Ord` for `UnknownRecordData` ignored the record type: data of two
//! different types with the same octets were equal, also inside `ZoneRecordData::Unknown`, whose `Hash` includes the
//! type -- equal values with different hashes.
use core::cmp::Ordering;
use domain::base::iana::Rtype;
use domain::base::name::Name;
use domain::base::rdata::UnknownRecordData;
use domain::rdata::ZoneRecordData;
use std::collections::hash_map::DefaultHasher;
use std::hash::{Hash, Hasher};

fn h<T: Hash>(t: &T) -> u64 {
    let mut s = DefaultHasher::new();
    t.hash(&mut s);
    s.finish()
}
fn main() {
    let u = |t: u16| UnknownRecordData::from_octets(Rtype::from_int(t), vec![1u8]).unwrap();
    let (a, b) = (u(65280), u(65281));
    let mut ok = true;
    println!("TYPE65280 [01] vs TYPE65281 [01]: eq = {}, cmp = {:?}, partial_cmp = {:?}", a == b, a.cmp(&b), a.partial_cmp(&b));
    if a == b || a.cmp(&b) == Ordering::Equal || a.partial_cmp(&b) == Some(Ordering::Equal) {
        println!("FAIL: record data of different types compare equal");
        ok = false;
    }
    let za: ZoneRecordData<Vec<u8>, Name<Vec<u8>>> = ZoneRecordData::Unknown(a);
    let zb: ZoneRecordData<Vec<u8>, Name<Vec<u8>>> = ZoneRecordData::Unknown(b);
    println!("inside ZoneRecordData: eq = {}, hashes equal = {}", za == zb, h(&za) == h(&zb));
    if za == zb && h(&za) != h(&zb) {
        println!("FAIL: equal values hash differently");
        ok = false;
    }
    let (c, d) = (u(65280), u(65280));
    if c != d || c.cmp(&d) != Ordering::Equal {
        println!("FAIL: identical values differ");
        ok = false;
    }
    if !ok {
        std::process::exit(1);
    }
    println!("OK");
}
