//! D35 (C05/C02): `Opt::push` / `push_raw_option` checked `len + option_len <= 65535` without the 4-octet option
//! header that is appended too: OPT data could grow beyond 65535 octets and `rdlen()` panicked ("long OPT").
use domain::base::opt::{Opt, UnknownOptData};
use domain::base::rdata::ComposeRecordData;

fn main() {
    let mut opt = Opt::<Vec<u8>>::empty();
    let a = opt.push(&UnknownOptData::new(65001.into(), vec![0u8; 65531]).unwrap());
    let b = opt.push(&UnknownOptData::new(65002.into(), Vec::<u8>::new()).unwrap());
    println!("push of a 65531-octet option: {:?}; push of a second, empty option: {:?}; OPT data is {} octets", a.is_ok(), b.is_ok(), opt.len());
    let r = std::panic::catch_unwind(move || opt.rdlen(false));
    match r {
        Ok(l) if b.is_err() => {
            println!("rdlen = {:?}", l);
            println!("OK");
        }
        Ok(l) => {
            println!("FAIL: second push accepted, rdlen = {:?}", l);
            std::process::exit(1);
        }
        Err(_) => {
            println!("FAIL: both pushes accepted and rdlen() panics");
            std::process::exit(1);
        }
    }
}
