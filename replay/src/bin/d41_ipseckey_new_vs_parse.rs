//! D41 (C05, open): `Ipseckey::new` accepts an algorithm other than "none" with an empty key, `Ipseckey::parse`
//! refuses exactly that: a value that composes but does not parse back.
use domain::base::iana::IpseckeyAlgorithm;
use domain::base::name::Name;
use domain::base::rdata::ComposeRecordData;
use domain::rdata::ipseckey::{Ipseckey, IpseckeyGateway};
use octseq::parse::Parser;

fn main() {
    let k: Ipseckey<Vec<u8>, Name<Vec<u8>>> = Ipseckey::new(10, IpseckeyAlgorithm::RSA, IpseckeyGateway::None, Vec::new());
    let mut buf = Vec::new();
    k.compose_rdata(&mut buf).unwrap();
    let mut p = Parser::from_ref(&buf[..]);
    let back = Ipseckey::parse(&mut p);
    println!("composed {:?} (rdlen {:?}); parse -> {}", buf, k.rdlen(false), match &back { Ok(_) => "ok".to_string(), Err(e) => format!("{}", e) });
    if back.is_err() {
        println!("FAIL: a value the constructor accepts does not survive compose/parse");
        std::process::exit(1);
    }
    println!("OK");
}
