//! D45: Dnskey::parse checks the length of the public key (remaining - 4) instead of the length of the record data
//! against the 65 535 octet limit, so record data of 65 536..=65 539 octets is accepted and yields a value that breaks
//! the type's invariant ("wire format at most 65,535 octets"): asking it for its RDLENGTH panics ("long key").
//! Cdnskey::parse and Cds::parse (rdata/cds.rs) carry the same line; Ds::parse, Rrsig::parse etc. check
//! `parser.remaining()`.
use domain::base::rdata::ComposeRecordData;
use domain::rdata::{Cdnskey, Cds, Dnskey};
use octseq::parse::Parser;

macro_rules! probe {
    ($ty:ident, $bad:ident) => {
        for len in [4usize, 5, 65535, 65536, 65537, 65539, 65540] {
            let buf = vec![7u8; len];
            let mut parser = Parser::from_ref(&buf[..]);
            let res = std::panic::catch_unwind(move || match $ty::parse(&mut parser) {
                Ok(value) => {
                    // a value the parser hands out must be composable (C05: rdlen is the number of octets written)
                    let rdlen = value.rdlen(false);
                    let mut out: Vec<u8> = Vec::new();
                    value.compose_rdata(&mut out).unwrap();
                    Some((rdlen, out.len()))
                }
                Err(_) => None,
            });
            match res {
                Err(_) => $bad.push(format!("record data of {} octets: {}::parse accepts it and rdlen() of the value panics", len, stringify!($ty))),
                Ok(Some((rdlen, n))) => {
                    if rdlen != Some(n as u16) || n != len || len > 65535 {
                        $bad.push(format!("record data of {} octets: {}::parse accepts it, rdlen {:?}, {} octets written", len, stringify!($ty), rdlen, n));
                    }
                }
                Ok(None) => {
                    if len >= 4 && len <= 65535 {
                        $bad.push(format!("record data of {} octets is rejected by {}::parse", len, stringify!($ty)));
                    }
                }
            }
        }
    };
}

fn main() {
    let hook = std::panic::take_hook();
    std::panic::set_hook(Box::new(|_| {}));
    let mut bad: Vec<String> = Vec::new();
    probe!(Dnskey, bad);
    probe!(Cdnskey, bad);
    probe!(Cds, bad);
    std::panic::set_hook(hook);
    if let Some(b) = bad.first() {
        println!("FAILING INPUT: {} ({} of 21 cases misbehave)", b, bad.len());
        std::process::exit(1);
    }
    println!("OK: Dnskey, Cdnskey and Cds::parse accept exactly 4..=65535 octets and every accepted value composes to what was read");
}
