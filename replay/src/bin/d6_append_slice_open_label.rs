//! D6 (C03): NameBuilder::append_slice with an open label: `63 - 64` underflow when the open label is full,
//! and no total-length check.
use domain::base::name::NameBuilder;
fn main() {
    // (a) full open label, then append_slice
    let r = std::panic::catch_unwind(|| {
        let mut b = NameBuilder::new_vec();
        for _ in 0..63 { b.push(b'a').unwrap(); }
        let r = b.append_slice(b"b");
        (r, b.finish().len())
    });
    match &r {
        Ok((res, len)) => println!("(a) append_slice on a full open label -> {:?}, name length {}", res, len),
        Err(_) => println!("(a) PANIC (arithmetic underflow) in append_slice on a full open label"),
    }
    // (b) total length: 24 labels of 9 (240) + open label grown by append_slice beyond 254
    let mut b = NameBuilder::new_vec();
    for _ in 0..24 { b.append_label(b"123456789").unwrap(); }   // 240
    b.push(b'x').unwrap();                                      // 242, open label
    let r2 = b.append_slice(&[b'y'; 40]);                       // would be 282
    let len = b.finish().len();
    println!("(b) append_slice growing an open label past the limit -> {:?}, relative name length {}", r2, len);
    let bad_a = match r { Err(_) => true, Ok((res, len)) => res.is_ok() || len > 254 };
    if bad_a || len > 254 { std::process::exit(1); }
    println!("OK");
}
