//! D20 (C04): `PartialOrd for Rrsig` ordered the signer name by `name_cmp` (RFC 4034 6.1 name order) and the
//! timestamps by serial arithmetic (undefined for values 2^31 apart), while `Ord for Rrsig` is the canonical order
//! (signer name by its lower-cased wire form, timestamps as integers): `a < b` and `a.cmp(&b)` could disagree and
//! `partial_cmp` could be `None` for a type that is `Ord`.
use core::cmp::Ordering;
use domain::base::iana::{Rtype, SecurityAlgorithm};
use domain::base::name::Name;
use domain::base::Ttl;
use domain::rdata::dnssec::{Rrsig, Timestamp};
use std::str::FromStr;

fn rrsig(exp: u32, signer: &str) -> Rrsig<Vec<u8>, Name<Vec<u8>>> {
    Rrsig::new(
        Rtype::A,
        SecurityAlgorithm::ED25519,
        2,
        Ttl::from_secs(3600),
        Timestamp::from(exp),
        Timestamp::from(0),
        1234,
        Name::from_str(signer).unwrap(),
        vec![1, 2, 3],
    )
    .unwrap()
}

fn check(what: &str, a: &Rrsig<Vec<u8>, Name<Vec<u8>>>, b: &Rrsig<Vec<u8>, Name<Vec<u8>>>) -> bool {
    let (p, c) = (a.partial_cmp(b), a.cmp(b));
    println!("{}: partial_cmp = {:?}, cmp = {:?}", what, p, c);
    if p != Some(c) || (a < b) != (c == Ordering::Less) {
        println!("FAIL: PartialOrd and Ord disagree");
        return false;
    }
    true
}

fn main() {
    let mut ok = true;
    // name order compares the rightmost label first, the wire form the leftmost
    ok &= check("signer a.b. vs b.a.", &rrsig(10, "a.b."), &rrsig(10, "b.a."));
    // serial arithmetic is undefined for expiration times 2^31 apart
    ok &= check("expiration 0 vs 2^31", &rrsig(0, "example."), &rrsig(0x8000_0000, "example."));
    // and wraps: 4000000000 is "before" 10 in serial arithmetic but not as an integer
    ok &= check("expiration 4000000000 vs 10", &rrsig(4_000_000_000, "example."), &rrsig(10, "example."));
    ok &= check("plain case", &rrsig(10, "example."), &rrsig(11, "example."));
    if !ok {
        std::process::exit(1);
    }
    println!("OK");
}
