//! D57 (C02): Header::set_opcode wrote `opcode.to_int() << 3` into the flags octet without trimming the value to the four
//! bits the field has (set_rcode right below it does trim): the opcode type admits every octet (Opcode::from_int is
//! total), so setting opcode 16..=31 switched the QR bit on (a query became a response) and every value above 15 was
//! read back as a different opcode with the neighbouring field disturbed. Found by the postcondition 'only the opcode
//! bits change' of unit wirehdr.
use domain::base::header::Header;
use domain::base::iana::Opcode;

fn main() {
    let mut ok = true;
    let mut bad = 0u32;
    for start in [[0u8, 0, 0, 0], [0x12, 0x34, 0x07, 0xFF], [0, 0, 0x80, 0], [0xFF, 0xFF, 0xFF, 0xFF]] {
        for v in 0u16..=255 {
            let v = v as u8;
            let mut h = *Header::for_message_slice(&[start[0], start[1], start[2], start[3], 0, 0, 0, 0, 0, 0, 0, 0]);
            let before = h;
            h.set_opcode(Opcode::from_int(v));
            let same_rest = h.id() == before.id()
                && h.qr() == before.qr()
                && h.aa() == before.aa()
                && h.tc() == before.tc()
                && h.rd() == before.rd()
                && h.as_slice()[3] == before.as_slice()[3];
            let reads = h.opcode().to_int() == (v & 0x0F);
            if !(same_rest && reads) {
                if bad < 4 {
                    println!(
                        "FAIL: header {:02x?}: set_opcode({v}) -> {:02x?} (qr {} -> {}, opcode reads {})",
                        before.as_slice(), h.as_slice(), before.qr(), h.qr(), h.opcode().to_int()
                    );
                }
                bad += 1;
                ok = false;
            }
        }
    }
    if ok {
        println!("OK: set_opcode changes the four opcode bits only, for all 256 values on 4 headers");
    } else {
        println!("FAIL: {bad} (header, value) pairs disturbed another field");
        std::process::exit(1);
    }
}
