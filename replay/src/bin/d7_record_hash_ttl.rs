//! D7 (C04): records that compare equal (Eq ignores the TTL) hash differently because Hash includes the TTL.
use domain::base::iana::Class;
use domain::base::name::Name;
use domain::base::{Record, Ttl};
use domain::rdata::A;
use std::collections::HashSet;
use std::str::FromStr;
fn main() {
    let owner = Name::<Vec<u8>>::from_str("example.com.").unwrap();
    let r1 = Record::new(owner.clone(), Class::IN, Ttl::from_secs(300), A::from_octets(192, 0, 2, 1));
    let r2 = Record::new(owner, Class::IN, Ttl::from_secs(60), A::from_octets(192, 0, 2, 1));
    assert!(r1 == r2, "the two records are equal (Eq ignores the TTL)");
    let mut set = HashSet::new();
    set.insert(r1);
    let dup = !set.insert(r2);
    println!("r1 == r2; inserting both into a HashSet recognises the duplicate: {}", dup);
    if !dup { println!("INCOHERENT: equal records hash differently"); std::process::exit(1); }
    println!("OK");
}
