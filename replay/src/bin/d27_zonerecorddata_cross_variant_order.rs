//! D27 (C04, open): the record-data enums order two different variants by their record type only. An `Unknown`
//! variant constructed by hand with the type of a known variant (the parser never produces one) is unequal to the
//! known variant but compares `Equal` to it.
use core::cmp::Ordering;
use domain::base::cmp::CanonicalOrd;
use domain::base::iana::Rtype;
use domain::base::name::Name;
use domain::base::rdata::UnknownRecordData;
use domain::rdata::{ZoneRecordData, A};

fn main() {
    let a: ZoneRecordData<Vec<u8>, Name<Vec<u8>>> = ZoneRecordData::A(A::from_octets(1, 2, 3, 4));
    let u: ZoneRecordData<Vec<u8>, Name<Vec<u8>>> =
        ZoneRecordData::Unknown(UnknownRecordData::from_octets(Rtype::A, vec![9, 9, 9, 9]).unwrap());
    println!("A(1.2.3.4) vs Unknown(TYPE1, 09090909): eq = {}, cmp = {:?}, canonical_cmp = {:?}", a == u, a.cmp(&u), a.canonical_cmp(&u));
    if a != u && a.cmp(&u) == Ordering::Equal {
        println!("FAIL: unequal values compare Equal");
        std::process::exit(1);
    }
    println!("OK");
}
