//! D18 (C04): `Ord`, `PartialOrd` and `CanonicalOrd` for `Nsec` compared `self.types` with `self.types`: two NSEC
//! record data with the same next name but different type bitmaps are `!=` but compare `Equal`, and the canonical
//! order disagrees with the octet order of the canonical RDATA.
use core::cmp::Ordering;
use domain::base::cmp::CanonicalOrd;
use domain::base::iana::Rtype;
use domain::base::name::Name;
use domain::base::rdata::ComposeRecordData;
use domain::rdata::dnssec::{Nsec, RtypeBitmap};
use std::str::FromStr;

fn nsec(types: &[Rtype]) -> Nsec<Vec<u8>, Name<Vec<u8>>> {
    let mut b = RtypeBitmap::<Vec<u8>>::builder();
    for t in types {
        b.add(*t).unwrap();
    }
    Nsec::new(Name::from_str("next.example.").unwrap(), b.finalize())
}

fn main() {
    let a = nsec(&[Rtype::A, Rtype::NSEC]);
    let b = nsec(&[Rtype::A, Rtype::MX, Rtype::NSEC]);
    let mut ok = true;
    if a == b {
        println!("unexpected: the two values are equal");
        ok = false;
    }
    let (mut wa, mut wb) = (Vec::new(), Vec::new());
    a.compose_canonical_rdata(&mut wa).unwrap();
    b.compose_canonical_rdata(&mut wb).unwrap();
    let wire = wa.cmp(&wb);
    println!("a != b; canonical RDATA order: {:?}", wire);
    println!("a.cmp(&b) = {:?}, a.partial_cmp(&b) = {:?}, a.canonical_cmp(&b) = {:?}", a.cmp(&b), a.partial_cmp(&b), a.canonical_cmp(&b));
    if a.cmp(&b) == Ordering::Equal || a.partial_cmp(&b) == Some(Ordering::Equal) {
        println!("FAIL: values that are not equal compare Equal");
        ok = false;
    }
    if a.canonical_cmp(&b) != wire || b.canonical_cmp(&a) != wire.reverse() {
        println!("FAIL: canonical_cmp differs from the octet order of the canonical RDATA");
        ok = false;
    }
    if !ok {
        std::process::exit(1);
    }
    println!("OK");
}
