//! C04 native search (a bounded exploration of the real crate, run on every check; it also supplies the concrete input when a Verus obligation of the property fails): small sets of names and of record data values with hand-written comparison
//! impls, all pairs (and triples of names) checked on the real crate for the laws of the property: == symmetric and
//! (cmp == Equal) <=> ==; partial_cmp == Some(cmp); antisymmetry, transitivity; equal values hash equal; name_cmp
//! is the RFC 4034 6.1 order; composed_cmp / canonical_cmp are the octet order of the (canonical) wire form.
use core::cmp::Ordering;
use domain::base::cmp::CanonicalOrd;
use domain::base::iana::{DigestAlgorithm, Nsec3HashAlgorithm, Rtype, SecurityAlgorithm, ZonemdAlgorithm, ZonemdScheme};
use domain::base::name::{Name, ToName};
use domain::base::rdata::{ComposeRecordData, UnknownRecordData};
use domain::base::{Serial, Ttl};
use domain::rdata::dnssec::{Dnskey, Ds, Nsec, RtypeBitmap, Rrsig, Timestamp};
use domain::rdata::nsec3::{Nsec3, Nsec3Salt, Nsec3param, OwnerHash};
use domain::rdata::svcb::{SvcParams, Svcb};
use domain::rdata::zonemd::Zonemd;
use domain::rdata::{Mx, Srv};
use std::collections::hash_map::DefaultHasher;
use std::fmt::Debug;
use std::hash::{Hash, Hasher};

type N = Name<Vec<u8>>;

fn h<T: Hash>(t: &T) -> u64 {
    let mut s = DefaultHasher::new();
    t.hash(&mut s);
    s.finish()
}
fn fail(what: &str, a: &dyn Debug, b: &dyn Debug, detail: String) -> ! {
    println!("FAILING PAIR ({}):\n  a = {:?}\n  b = {:?}\n{}", what, a, b, detail);
    std::process::exit(1);
}
fn lower(v: &[u8]) -> Vec<u8> {
    v.iter().map(|c| c.to_ascii_lowercase()).collect()
}
/// RFC 4034 6.1 on label sequences
fn ref_name_cmp(a: &[Vec<u8>], b: &[Vec<u8>]) -> Ordering {
    let (mut i, mut j) = (a.len(), b.len());
    loop {
        match (i, j) {
            (0, 0) => return Ordering::Equal,
            (0, _) => return Ordering::Less,
            (_, 0) => return Ordering::Greater,
            _ => {}
        }
        i -= 1;
        j -= 1;
        match lower(&a[i]).cmp(&lower(&b[j])) {
            Ordering::Equal => {}
            o => return o,
        }
    }
}
fn labels(n: &N) -> Vec<Vec<u8>> {
    n.iter().map(|l| l.as_slice().to_vec()).collect()
}
fn names() -> Vec<N> {
    let ls: [&[u8]; 7] = [b"a", b"A", b"b", b"[", b"\0", b"ab", b"aB"];
    let mut out = vec![Name::root_vec()];
    let mk = |parts: &[&[u8]]| -> N {
        let mut w = Vec::new();
        for p in parts {
            w.push(p.len() as u8);
            w.extend_from_slice(p);
        }
        w.push(0);
        Name::from_octets(w).unwrap()
    };
    for x in ls {
        out.push(mk(&[x]));
        for y in ls {
            out.push(mk(&[x, y]));
        }
    }
    out
}

fn check_names() -> usize {
    let ns = names();
    let mut n = 0;
    for a in &ns {
        for b in &ns {
            n += 1;
            let (c, e) = (a.cmp(b), a == b);
            let (la, lb) = (labels(a), labels(b));
            let r = ref_name_cmp(&la, &lb);
            if c != r || a.name_cmp(b) != r {
                fail("name order", a, b, format!("cmp = {:?}, name_cmp = {:?}, RFC 4034 6.1 order = {:?}", c, a.name_cmp(b), r));
            }
            if e != (c == Ordering::Equal) || e != (b == a) || a.name_eq(b) != e {
                fail("name equality vs order", a, b, format!("== is {}, name_eq is {}, cmp is {:?}", e, a.name_eq(b), c));
            }
            if a.partial_cmp(b) != Some(c) || b.cmp(a) != c.reverse() {
                fail("name partial_cmp / antisymmetry", a, b, format!("partial_cmp = {:?}, cmp = {:?}, reverse = {:?}", a.partial_cmp(b), c, b.cmp(a)));
            }
            if e && h(a) != h(b) {
                fail("equal names hash differently", a, b, String::new());
            }
            let (wa, wb) = (a.as_slice().to_vec(), b.as_slice().to_vec());
            if a.composed_cmp(b) != wa.cmp(&wb) {
                fail("composed_cmp vs wire order", a, b, format!("composed_cmp = {:?}, wire order = {:?}", a.composed_cmp(b), wa.cmp(&wb)));
            }
            if a.lowercase_composed_cmp(b) != lower(&wa).cmp(&lower(&wb)) {
                fail("lowercase_composed_cmp vs canonical wire order", a, b, format!("{:?} vs {:?}", a.lowercase_composed_cmp(b), lower(&wa).cmp(&lower(&wb))));
            }
        }
    }
    // transitivity on a subset
    let sub: Vec<&N> = ns.iter().step_by(3).collect();
    for a in &sub {
        for b in &sub {
            for c in &sub {
                n += 1;
                if a.cmp(b) != Ordering::Greater && b.cmp(c) != Ordering::Greater && a.cmp(c) == Ordering::Greater {
                    fail("name order not transitive (a <= b <= c but a > c)", a, c, format!("  b = {:?}", b));
                }
            }
        }
    }
    n
}

/// all pairs of record data values of one type
fn check_type<T>(what: &str, vals: &[T]) -> usize
where
    T: Ord + Eq + Hash + Debug + CanonicalOrd + ComposeRecordData,
{
    let canon = |d: &T| {
        let mut v = Vec::new();
        d.compose_canonical_rdata(&mut v).unwrap();
        v
    };
    let mut n = 0;
    for a in vals {
        for b in vals {
            n += 1;
            let (c, e) = (a.cmp(b), a == b);
            if e != (c == Ordering::Equal) || e != (b == a) {
                fail(&format!("{}: == vs cmp", what), a, b, format!("== is {}, cmp is {:?}", e, c));
            }
            if a.partial_cmp(b) != Some(c) {
                fail(&format!("{}: partial_cmp vs cmp", what), a, b, format!("partial_cmp = {:?}, cmp = {:?}", a.partial_cmp(b), c));
            }
            if b.cmp(a) != c.reverse() {
                fail(&format!("{}: antisymmetry", what), a, b, format!("a.cmp(b) = {:?}, b.cmp(a) = {:?}", c, b.cmp(a)));
            }
            if e && h(a) != h(b) {
                fail(&format!("{}: equal values hash differently", what), a, b, String::new());
            }
            let w = canon(a).cmp(&canon(b));
            if a.canonical_cmp(b) != w {
                fail(&format!("{}: canonical_cmp vs octet order of the canonical RDATA", what), a, b, format!("canonical_cmp = {:?}, canonical RDATA {:02x?} vs {:02x?} = {:?}", a.canonical_cmp(b), canon(a), canon(b), w));
            }
        }
    }
    n
}

fn main() {
    let mut n = check_names();
    let nm = |s: &[u8]| -> N { Name::from_octets(s.to_vec()).unwrap() };
    let some_names = [nm(b"\x01a\x01b\0"), nm(b"\x01b\x01a\0"), nm(b"\x01A\x01b\0"), nm(b"\x01a\0"), nm(b"\0")];
    let bm = |ts: &[Rtype]| {
        let mut b = RtypeBitmap::<Vec<u8>>::builder();
        for t in ts {
            b.add(*t).unwrap();
        }
        b.finalize()
    };
    let bitmaps = [bm(&[]), bm(&[Rtype::A]), bm(&[Rtype::A, Rtype::MX]), bm(&[Rtype::from_int(300)])];
    let octs: [&[u8]; 5] = [b"", b"\x01", b"\xaa", b"\x01\x02\x03\x04", b"\x00\x00"];

    let mut v = Vec::new();
    for x in &some_names {
        for t in &bitmaps {
            v.push(Nsec::new(x.clone(), t.clone()));
        }
    }
    n += check_type("Nsec", &v);

    let mut v = Vec::new();
    for s in octs {
        for hsh in [&b"\x07\x07"[..], &b"\xff"[..], &b"\x00\x00\x00"[..]] {
            for (it, t) in [(0u16, &bitmaps[0]), (256, &bitmaps[1]), (1, &bitmaps[2])] {
                v.push(Nsec3::new(Nsec3HashAlgorithm::SHA1, (it & 1) as u8, it, Nsec3Salt::from_octets(s.to_vec()).unwrap(), OwnerHash::from_octets(hsh.to_vec()).unwrap(), t.clone()));
            }
        }
    }
    n += check_type("Nsec3", &v);

    let mut v = Vec::new();
    for s in octs {
        for it in [0u16, 1, 256, 255] {
            v.push(Nsec3param::new(Nsec3HashAlgorithm::SHA1, (it & 1) as u8, it, Nsec3Salt::from_octets(s.to_vec()).unwrap()));
        }
    }
    // Nsec3param: Ord is the plain field order (not the canonical one): check the laws that hold for it
    for a in &v {
        for b in &v {
            n += 1;
            if (a == b) != (a.cmp(b) == Ordering::Equal) || a.partial_cmp(b) != Some(a.cmp(b)) {
                fail("Nsec3param: ==, cmp, partial_cmp", a, b, format!("== {}, cmp {:?}, partial_cmp {:?}", a == b, a.cmp(b), a.partial_cmp(b)));
            }
            let (mut wa, mut wb) = (Vec::new(), Vec::new());
            a.compose_canonical_rdata(&mut wa).unwrap();
            b.compose_canonical_rdata(&mut wb).unwrap();
            if a.canonical_cmp(b) != wa.cmp(&wb) {
                fail("Nsec3param: canonical_cmp vs canonical RDATA", a, b, format!("{:?} vs {:?}", a.canonical_cmp(b), wa.cmp(&wb)));
            }
        }
    }

    let mut v = Vec::new();
    for x in &some_names {
        for (exp, sig) in [(0u32, &b"\x01"[..]), (0x8000_0000, &b"\x01\x02"[..]), (4_000_000_000, &b""[..]), (10, &b"\x01"[..])] {
            v.push(Rrsig::new(Rtype::A, SecurityAlgorithm::ED25519, 2, Ttl::from_secs(3600), Timestamp::from(exp), Timestamp::from(exp / 2), 7, x.clone(), sig.to_vec()).unwrap());
        }
    }
    n += check_type("Rrsig", &v);

    let mut v = Vec::new();
    for k in octs {
        for f in [0u16, 1, 256, 257] {
            v.push(Dnskey::new(f, 3, SecurityAlgorithm::from_int((f & 0xff) as u8), k.to_vec()).unwrap());
        }
    }
    n += check_type("Dnskey", &v);

    let mut v = Vec::new();
    for k in octs {
        for t in [0u16, 1, 256, 511] {
            v.push(Ds::new(t, SecurityAlgorithm::from_int((t >> 8) as u8), DigestAlgorithm::from_int((t & 1) as u8), k.to_vec()).unwrap());
        }
    }
    n += check_type("Ds", &v);

    let mut v = Vec::new();
    for k in octs {
        for s in [0u32, 1, 0x8000_0000, 0xFFFF_FFFF] {
            v.push(Zonemd::new(Serial(s), ZonemdScheme::SIMPLE, ZonemdAlgorithm::from_int((s & 1) as u8), k.to_vec()));
        }
    }
    n += check_type("Zonemd", &v);

    let mut v = Vec::new();
    for x in &some_names {
        for p in [1u16, 256] {
            v.push(Svcb::<Vec<u8>, N>::new(p, x.clone(), SvcParams::from_octets(Vec::new()).ok().unwrap()).unwrap());
        }
    }
    n += check_type("Svcb", &v);

    let mut v = Vec::new();
    for x in &some_names {
        for p in [1u16, 256] {
            v.push(Mx::new(p, x.clone()));
        }
    }
    n += check_type("Mx", &v);
    let mut v = Vec::new();
    for x in &some_names {
        for p in [1u16, 256] {
            v.push(Srv::new(p, 1, 53, x.clone()));
        }
    }
    n += check_type("Srv", &v);

    // unknown record data: no Hash of its own, no CanonicalOrd vs type; the laws that apply
    let mut v = Vec::new();
    for t in [65280u16, 65281] {
        for k in octs {
            v.push(UnknownRecordData::from_octets(Rtype::from_int(t), k.to_vec()).unwrap());
        }
    }
    for a in &v {
        for b in &v {
            n += 1;
            if (a == b) != (a.cmp(b) == Ordering::Equal) || a.partial_cmp(b) != Some(a.cmp(b)) || b.cmp(a) != a.cmp(b).reverse() {
                fail("UnknownRecordData: ==, cmp, partial_cmp", a, b, format!("== {}, cmp {:?}, partial_cmp {:?}", a == b, a.cmp(b), a.partial_cmp(b)));
            }
        }
    }
    println!("OK: {} pairs and triples, all laws hold", n);
}
