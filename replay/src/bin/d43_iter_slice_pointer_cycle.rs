//! D43 (C01): `Label::iter_slice` followed every compression pointer that points before the CURRENT position, so
//! a label followed by a pointer back to it (`01 00 C0 00`) was iterated forever: each `next()` returns, the
//! iteration never ends. Found by c01_search_small_names.
use domain::base::name::Label;

fn main() {
    let buf = [0x01u8, 0x00, 0xC0, 0x00];
    let mut n = 0usize;
    for _ in Label::iter_slice(&buf, 0) {
        n += 1;
        if n > 1000 {
            println!("FAIL: Label::iter_slice(01 00 C0 00, 0) has yielded more than 1000 labels: it cycles forever");
            std::process::exit(1);
        }
    }
    println!("Label::iter_slice(01 00 C0 00, 0) yields {} label(s) and stops", n);
    // a legitimate chain of backward pointers still works: "a" at 0 (then root), at 3 a pointer to 0
    let ok = [0x01u8, b'a', 0x00, 0x01, b'b', 0xC0, 0x00];
    let labels: Vec<Vec<u8>> = Label::iter_slice(&ok, 3).map(|l| l.as_slice().to_vec()).collect();
    println!("b + pointer to a. -> {:?}", labels);
    if labels != vec![b"b".to_vec(), b"a".to_vec(), Vec::new()] {
        println!("FAIL: a well-formed compressed name is not iterated correctly");
        std::process::exit(1);
    }
    println!("OK");
}
