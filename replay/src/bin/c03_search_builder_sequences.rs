//! C03 native search (a bounded exploration of the real crate, run on every check; it also supplies the concrete input when a Verus obligation of the property fails). Two parts, both on the real crate:
//! (1) every octet string of at most 6 octets over {0, 1, 2, 63, 64, 'a'}: Name::from_slice / RelativeName::
//!     from_slice accept exactly the valid wire forms (reference checker below);
//! (2) every sequence of at most 5 NameBuilder operations over sizes that reach the label (63) and name (254/255)
//!     limits: whatever the builder accepts, `finish()` and `into_name()` give valid names within the limits, and
//!     a refused operation leaves the builder unchanged.
//! (3) every valid relative / absolute name among those strings (plus names with labels that contain the octets of another
//!     name's wire form) through the slicing operations: truncate / split / range / slice_from / range_from at *every*
//!     index panic exactly at positions that are not label starts and otherwise give valid names holding exactly
//!     the octets before / behind the position; split_first / parent; strip_suffix with every other such name as base
//!     succeeds exactly when the base is a label-wise suffix (up to ASCII case) and leaves a valid name (or, refused,
//!     the name as it was); into_absolute / into_relative; chain of two relative names.
//! The open known finding D5 (append_slice / append_label without an open label accepting len + n == 254) is
//! skipped: sequences containing exactly that step are not judged.
use domain::base::name::{Name, NameBuilder, RelativeName};

fn valid_rel(s: &[u8]) -> bool {
    let mut i = 0;
    while i < s.len() {
        let l = s[i] as usize;
        if l == 0 || l > 63 || i + 1 + l > s.len() {
            return false;
        }
        i += 1 + l;
    }
    s.len() <= 254
}
fn valid_abs(s: &[u8]) -> bool {
    let mut i = 0;
    loop {
        if i >= s.len() {
            return false;
        }
        let l = s[i] as usize;
        if l == 0 {
            return i + 1 == s.len() && s.len() <= 255;
        }
        if l > 63 || i + 1 + l > s.len() {
            return false;
        }
        i += 1 + l;
    }
}

#[derive(Clone, Copy, Debug)]
enum Op {
    Push,
    Slice(usize),
    Label(usize),
    End,
}
const OPS: [Op; 12] = [Op::Push, Op::End, Op::Slice(1), Op::Slice(62), Op::Slice(63), Op::Slice(64), Op::Label(1), Op::Label(60), Op::Label(62), Op::Label(63), Op::Label(64), Op::Slice(0)];

fn run(seq: &[Op]) -> Result<(), String> {
    let mut b = NameBuilder::new_vec();
    let data = [b'a'; 64];
    for op in seq {
        let before = b.as_slice().to_vec();
        let before_in_label = b.in_label();
        // D5 (open): not judged
        let d5 = match op {
            Op::Slice(n) | Op::Label(n) => !b.in_label() && *n > 0 && b.len() + n == 254,
            _ => false,
        } || matches!(op, Op::Label(n) if b.in_label() && b.len() + n == 254);
        if d5 {
            return Ok(());
        }
        let r = match op {
            Op::Push => b.push(b'x').is_ok(),
            Op::Slice(n) => b.append_slice(&data[..*n]).is_ok(),
            Op::Label(n) => b.append_label(&data[..*n]).is_ok(),
            Op::End => {
                b.end_label();
                true
            }
        };
        if !r && !matches!(op, Op::Label(_)) && (b.as_slice() != &before[..] || b.in_label() != before_in_label) {
            return Err(format!("{:?} was refused but changed the builder ({} -> {} octets)", op, before.len(), b.len()));
        }
        if b.len() > 254 {
            return Err(format!("after {:?} the builder holds {} octets", op, b.len()));
        }
    }
    let rel = b.clone().finish();
    if !valid_rel(rel.as_slice()) || RelativeName::from_octets(rel.as_slice().to_vec()).is_err() {
        return Err(format!("finish() gives an invalid relative name of {} octets", rel.as_slice().len()));
    }
    match b.into_name() {
        Ok(n) => {
            if !valid_abs(n.as_slice()) || Name::from_octets(n.as_slice().to_vec()).is_err() {
                return Err(format!("into_name() gives an invalid name of {} octets", n.as_slice().len()));
            }
        }
        Err(_) => {
            if rel.as_slice().len() < 254 {
                return Err("into_name() refuses a name that fits".into());
            }
        }
    }
    Ok(())
}

fn labels(s: &[u8]) -> Vec<Vec<u8>> {
    let mut v = vec![];
    let mut i = 0;
    while i < s.len() {
        let l = s[i] as usize;
        v.push(s[i + 1..i + 1 + l].to_ascii_lowercase());
        i += 1 + l;
    }
    v
}
fn label_starts(s: &[u8]) -> Vec<usize> {
    let mut v = vec![0];
    let mut i = 0;
    while i < s.len() {
        i += 1 + s[i] as usize;
        v.push(i);
    }
    v
}
fn caught<T>(f: impl FnOnce() -> T + std::panic::UnwindSafe) -> Option<T> {
    std::panic::catch_unwind(f).ok()
}
/// part (3): slicing operations on one valid relative name `r` (wire form) against the reference functions above
fn slicing_rel(r: &[u8], bases: &[Vec<u8>]) -> Result<u64, String> {
    let mut n = 0u64;
    let name = RelativeName::from_slice(r).map_err(|_| format!("{r:02x?} refused"))?;
    let starts = label_starts(r);
    for idx in 0..=r.len() + 1 {
        n += 1;
        let is_start = starts.contains(&idx) && idx <= r.len();
        // truncate
        let rv = r.to_vec();
        let t = caught(move || {
            let mut m = RelativeName::from_octets(rv).unwrap();
            m.truncate(idx);
            m.into_octets()
        });
        match (is_start, t) {
            (true, Some(o)) if o == r[..idx] && valid_rel(&o) => {}
            (false, None) => {}
            (_, t) => return Err(format!("RelativeName {r:02x?} .truncate({idx}) -> {t:02x?}; {idx} is a label start: {is_start}")),
        }
        // split
        let nm = RelativeName::from_octets(r.to_vec()).unwrap();
        let t = caught(move || {
            let (a, b) = nm.split(idx);
            (a.as_slice().to_vec(), b.as_slice().to_vec())
        });
        match (is_start, t) {
            (true, Some((a, b))) if a == r[..idx] && b == r[idx..] && valid_rel(&a) && valid_rel(&b) => {}
            (false, None) => {}
            (_, t) => return Err(format!("RelativeName {r:02x?} .split({idx}) -> {t:02x?}; {idx} is a label start: {is_start}")),
        }
        // range / slice from idx to the end
        let nm = RelativeName::from_octets(r.to_vec()).unwrap();
        let t = caught(move || (nm.range(idx..).as_slice().to_vec(), nm.slice(..idx).as_slice().to_vec()));
        match (is_start, t) {
            (true, Some((a, b))) if a == r[idx..] && b == r[..idx] => {}
            (false, None) => {}
            (_, t) => return Err(format!("RelativeName {r:02x?} .range({idx}..)/.slice(..{idx}) -> {t:02x?}; {idx} is a label start: {is_start}")),
        }
        if name.is_label_start(idx) != is_start {
            return Err(format!("RelativeName {r:02x?} .is_label_start({idx}) != {is_start}"));
        }
    }
    // split_first / parent
    match name.split_first() {
        None if r.is_empty() => {}
        Some((l, rest)) if !r.is_empty() && l.as_slice() == &r[1..1 + r[0] as usize] && rest.as_slice() == &r[1 + r[0] as usize..] => {}
        other => return Err(format!("RelativeName {r:02x?} .split_first() -> {:?}", other.map(|(l, n)| (l.as_slice().to_vec(), n.as_slice().to_vec())))),
    }
    // strip_suffix with every base
    let lr = labels(r);
    for b in bases {
        n += 1;
        let lb = labels(b);
        let is_suffix = lb.len() <= lr.len() && lr[lr.len() - lb.len()..] == lb[..];
        let base = RelativeName::from_octets(b.clone()).unwrap();
        let mut m = RelativeName::from_octets(r.to_vec()).unwrap();
        let res = m.strip_suffix(&base);
        let after = m.as_slice().to_vec();
        let ok = if is_suffix { res.is_ok() && after == r[..r.len() - b.len()] } else { res.is_err() && after == r };
        if !ok || !valid_rel(&after) {
            return Err(format!("RelativeName {r:02x?} .strip_suffix({b:02x?}) -> {} leaving {after:02x?}; label-wise suffix: {is_suffix}", if res.is_ok() { "Ok" } else { "Err" }));
        }
        if name.ends_with(&base) != is_suffix {
            return Err(format!("RelativeName {r:02x?} .ends_with({b:02x?}) != {is_suffix}"));
        }
        // chain of two relative names: within the limit the labels of both in order
        if let Ok(c) = RelativeName::from_octets(r.to_vec()).unwrap().chain(base.clone()) {
            use domain::base::name::ToLabelIter;
            let got: Vec<Vec<u8>> = c.iter_labels().map(|l| l.as_slice().to_ascii_lowercase()).collect();
            let mut want = lr.clone();
            want.extend(lb.clone());
            if got != want {
                return Err(format!("chain of {r:02x?} and {b:02x?} has labels {got:02x?}"));
            }
        }
    }
    // into_absolute and back
    let abs = RelativeName::from_octets(r.to_vec()).unwrap().into_absolute().map_err(|_| "into_absolute failed on a Vec")?;
    let mut w = r.to_vec();
    w.push(0);
    if abs.as_slice() != &w[..] || !valid_abs(abs.as_slice()) {
        return Err(format!("RelativeName {r:02x?} .into_absolute() -> {:02x?}", abs.as_slice()));
    }
    if abs.clone().into_relative().as_slice() != r {
        return Err(format!("Name {w:02x?} .into_relative() -> {:02x?}", abs.into_relative().as_slice()));
    }
    // the same positions on the absolute name
    let astarts = label_starts(r); // starts of the non-root labels; the root label starts at r.len()
    for idx in 0..=w.len() + 1 {
        n += 1;
        let is_start = astarts.contains(&idx) && idx <= r.len();
        if abs.is_label_start(idx) != is_start {
            return Err(format!("Name {w:02x?} .is_label_start({idx}) != {is_start}"));
        }
        let a2 = abs.clone();
        let t = caught(move || (a2.slice_from(idx).as_slice().to_vec(), a2.range_from(idx).as_slice().to_vec(), a2.clone().truncate(idx).as_slice().to_vec()));
        match (is_start, t) {
            (true, Some((a, b, c))) if a == w[idx..] && b == w[idx..] && c == w[..idx] && valid_abs(&a) && valid_rel(&c) => {}
            (false, None) => {}
            (_, t) => return Err(format!("Name {w:02x?} .slice_from/.range_from/.truncate({idx}) -> {t:02x?}; {idx} is a label start: {is_start}")),
        }
    }
    // strip_suffix on the absolute name
    for b in bases {
        let mut wb = b.clone();
        wb.push(0);
        let lb = labels(b);
        let is_suffix = lb.len() <= lr.len() && lr[lr.len() - lb.len()..] == lb[..];
        let base = Name::from_octets(wb.clone()).unwrap();
        match abs.clone().strip_suffix(&base) {
            Ok(rel) if is_suffix && rel.as_slice() == &r[..r.len() - b.len()] => {}
            Err(orig) if !is_suffix && orig.as_slice() == &w[..] => {}
            other => return Err(format!("Name {w:02x?} .strip_suffix({wb:02x?}) -> {:?}; label-wise suffix: {is_suffix}", other.map(|n| n.as_slice().to_vec()).map_err(|n| n.as_slice().to_vec()))),
        }
    }
    Ok(n)
}

fn main() {
    std::panic::set_hook(Box::new(|_| {}));
    let alphabet = [0u8, 1, 2, 63, 64, b'a'];
    let mut n = 0u64;
    for len in 0..=6usize {
        for mut idx in 0..alphabet.len().pow(len as u32) {
            let mut s = Vec::with_capacity(len);
            for _ in 0..len {
                s.push(alphabet[idx % alphabet.len()]);
                idx /= alphabet.len();
            }
            n += 1;
            if Name::from_slice(&s).is_ok() != valid_abs(&s) {
                println!("FAILING INPUT: Name::from_slice({:02x?}) is_ok = {} but valid = {}", s, Name::from_slice(&s).is_ok(), valid_abs(&s));
                std::process::exit(1);
            }
            if RelativeName::from_slice(&s).is_ok() != valid_rel(&s) {
                println!("FAILING INPUT: RelativeName::from_slice({:02x?}) is_ok = {} but valid = {}", s, RelativeName::from_slice(&s).is_ok(), valid_rel(&s));
                std::process::exit(1);
            }
        }
    }
    // builder sequences: a long prefix of three 63-octet labels (192 octets) brings the limits within reach
    let prefixes: [&[Op]; 3] = [&[], &[Op::Label(63), Op::Label(63), Op::Label(63)], &[Op::Label(63), Op::Label(63), Op::Label(63), Op::Label(60)]];
    for prefix in prefixes {
        for len in 0..=4usize {
            for mut idx in 0..OPS.len().pow(len as u32) {
                let mut seq: Vec<Op> = prefix.to_vec();
                for _ in 0..len {
                    seq.push(OPS[idx % OPS.len()]);
                    idx /= OPS.len();
                }
                n += 1;
                let s2 = seq.clone();
                match std::panic::catch_unwind(move || run(&s2)) {
                    Ok(Ok(())) => {}
                    Ok(Err(msg)) => {
                        println!("FAILING INPUT: NameBuilder::new_vec() then {:?}\n{}", seq, msg);
                        std::process::exit(1);
                    }
                    Err(_) => {
                        println!("FAILING INPUT: NameBuilder::new_vec() then {:?}\nPANIC", seq);
                        std::process::exit(1);
                    }
                }
            }
        }
    }
    // (3) slicing operations: all valid relative names of at most 5 octets over {1, 2, 3, 'a', 'A', 'c'} (every label layout
    // of that size, labels whose content looks like a length octet followed by text), and some with longer labels
    let alphabet3 = [1u8, 2, 3, b'a', b'A', b'c'];
    let mut names: Vec<Vec<u8>> = vec![];
    for len in 0..=5usize {
        for mut idx in 0..alphabet3.len().pow(len as u32) {
            let mut s = Vec::with_capacity(len);
            for _ in 0..len {
                s.push(alphabet3[idx % alphabet3.len()]);
                idx /= alphabet3.len();
            }
            if valid_rel(&s) {
                names.push(s);
            }
        }
    }
    // a label whose content ends with the wire form of `com` / of `a.c`, next to the real thing
    for extra in [&b"\x05a\x03com"[..], b"\x01a\x03com", b"\x03com", b"\x03COM", b"\x07www\x03com\x03com", b"\x05x\x01a\x01c", b"\x01x\x01a\x01c", b"\x01A\x01c"] {
        names.push(extra.to_vec());
    }
    let bases: Vec<Vec<u8>> = names.iter().filter(|b| b.len() <= 4 || b.len() > 5).cloned().collect();
    for r in &names {
        let (r2, b2) = (r.clone(), bases.clone());
        match std::panic::catch_unwind(move || slicing_rel(&r2, &b2)) {
            Ok(Ok(k)) => n += k,
            Ok(Err(msg)) => {
                println!("FAILING INPUT: {}", msg);
                std::process::exit(1);
            }
            Err(_) => {
                println!("FAILING INPUT: slicing operations on the relative name {:02x?}: unexpected PANIC", r);
                std::process::exit(1);
            }
        }
    }
    println!("OK: {} inputs, operation sequences and slicing operations ({} names)", n, names.len());
}
