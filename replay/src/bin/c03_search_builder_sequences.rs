//! C03 native search (a bounded exploration of the real crate, run on every check; it also supplies the concrete input when a Verus obligation of the property fails). Two parts, both on the real crate:
//! (1) every octet string of at most 6 octets over {0, 1, 2, 63, 64, 'a'}: Name::from_slice / RelativeName::
//!     from_slice accept exactly the valid wire forms (reference checker below);
//! (2) every sequence of at most 5 NameBuilder operations over sizes that reach the label (63) and name (254/255)
//!     limits: whatever the builder accepts, `finish()` and `into_name()` give valid names within the limits, and
//!     a refused operation leaves the builder unchanged.
//! The open known finding D5 (append_slice / append_label without an open label accepting len + n == 254) is
//! skipped: sequences containing exactly that step are not judged.
use domain::base::name::{Name, NameBuilder, RelativeName};

fn valid_rel(s: &[u8]) -> bool {
    let mut i = 0;
    while i < s.len() {
        let l = s[i] as usize;
        if l == 0 || l > 63 || i + 1 + l > s.len() {
            return false;
        }
        i += 1 + l;
    }
    s.len() <= 254
}
fn valid_abs(s: &[u8]) -> bool {
    let mut i = 0;
    loop {
        if i >= s.len() {
            return false;
        }
        let l = s[i] as usize;
        if l == 0 {
            return i + 1 == s.len() && s.len() <= 255;
        }
        if l > 63 || i + 1 + l > s.len() {
            return false;
        }
        i += 1 + l;
    }
}

#[derive(Clone, Copy, Debug)]
enum Op {
    Push,
    Slice(usize),
    Label(usize),
    End,
}
const OPS: [Op; 12] = [Op::Push, Op::End, Op::Slice(1), Op::Slice(62), Op::Slice(63), Op::Slice(64), Op::Label(1), Op::Label(60), Op::Label(62), Op::Label(63), Op::Label(64), Op::Slice(0)];

fn run(seq: &[Op]) -> Result<(), String> {
    let mut b = NameBuilder::new_vec();
    let data = [b'a'; 64];
    for op in seq {
        let before = b.as_slice().to_vec();
        let before_in_label = b.in_label();
        // D5 (open): not judged
        let d5 = match op {
            Op::Slice(n) | Op::Label(n) => !b.in_label() && *n > 0 && b.len() + n == 254,
            _ => false,
        } || matches!(op, Op::Label(n) if b.in_label() && b.len() + n == 254);
        if d5 {
            return Ok(());
        }
        let r = match op {
            Op::Push => b.push(b'x').is_ok(),
            Op::Slice(n) => b.append_slice(&data[..*n]).is_ok(),
            Op::Label(n) => b.append_label(&data[..*n]).is_ok(),
            Op::End => {
                b.end_label();
                true
            }
        };
        if !r && !matches!(op, Op::Label(_)) && (b.as_slice() != &before[..] || b.in_label() != before_in_label) {
            return Err(format!("{:?} was refused but changed the builder ({} -> {} octets)", op, before.len(), b.len()));
        }
        if b.len() > 254 {
            return Err(format!("after {:?} the builder holds {} octets", op, b.len()));
        }
    }
    let rel = b.clone().finish();
    if !valid_rel(rel.as_slice()) || RelativeName::from_octets(rel.as_slice().to_vec()).is_err() {
        return Err(format!("finish() gives an invalid relative name of {} octets", rel.as_slice().len()));
    }
    match b.into_name() {
        Ok(n) => {
            if !valid_abs(n.as_slice()) || Name::from_octets(n.as_slice().to_vec()).is_err() {
                return Err(format!("into_name() gives an invalid name of {} octets", n.as_slice().len()));
            }
        }
        Err(_) => {
            if rel.as_slice().len() < 254 {
                return Err("into_name() refuses a name that fits".into());
            }
        }
    }
    Ok(())
}

fn main() {
    std::panic::set_hook(Box::new(|_| {}));
    let alphabet = [0u8, 1, 2, 63, 64, b'a'];
    let mut n = 0u64;
    for len in 0..=6usize {
        for mut idx in 0..alphabet.len().pow(len as u32) {
            let mut s = Vec::with_capacity(len);
            for _ in 0..len {
                s.push(alphabet[idx % alphabet.len()]);
                idx /= alphabet.len();
            }
            n += 1;
            if Name::from_slice(&s).is_ok() != valid_abs(&s) {
                println!("FAILING INPUT: Name::from_slice({:02x?}) is_ok = {} but valid = {}", s, Name::from_slice(&s).is_ok(), valid_abs(&s));
                std::process::exit(1);
            }
            if RelativeName::from_slice(&s).is_ok() != valid_rel(&s) {
                println!("FAILING INPUT: RelativeName::from_slice({:02x?}) is_ok = {} but valid = {}", s, RelativeName::from_slice(&s).is_ok(), valid_rel(&s));
                std::process::exit(1);
            }
        }
    }
    // builder sequences: a long prefix of three 63-octet labels (192 octets) brings the limits within reach
    let prefixes: [&[Op]; 3] = [&[], &[Op::Label(63), Op::Label(63), Op::Label(63)], &[Op::Label(63), Op::Label(63), Op::Label(63), Op::Label(60)]];
    for prefix in prefixes {
        for len in 0..=4usize {
            for mut idx in 0..OPS.len().pow(len as u32) {
                let mut seq: Vec<Op> = prefix.to_vec();
                for _ in 0..len {
                    seq.push(OPS[idx % OPS.len()]);
                    idx /= OPS.len();
                }
                n += 1;
                let s2 = seq.clone();
                match std::panic::catch_unwind(move || run(&s2)) {
                    Ok(Ok(())) => {}
                    Ok(Err(msg)) => {
                        println!("FAILING INPUT: NameBuilder::new_vec() then {:?}\n{}", seq, msg);
                        std::process::exit(1);
                    }
                    Err(_) => {
                        println!("FAILING INPUT: NameBuilder::new_vec() then {:?}\nPANIC", seq);
                        std::process::exit(1);
                    }
                }
            }
        }
    }
    println!("OK: {} inputs and operation sequences", n);
}
