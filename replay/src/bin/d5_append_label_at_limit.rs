//! D5 (C03, open, pinned by builder::test::name_limit): append_label at 250 + 4 octets forgets the length octet.
use domain::base::name::NameBuilder;
fn main() {
    let mut b = NameBuilder::new_vec();
    for _ in 0..25 { b.append_label(b"123456789").unwrap(); }   // 250 octets
    let r = b.append_label(b"1234");
    let rel = b.clone().finish();
    println!("append_label(4 octets) at 250 -> {:?}; relative name length {}", r, rel.len());
    if rel.len() > 254 { println!("INVALID: relative name of {} octets", rel.len()); std::process::exit(1); }
}
