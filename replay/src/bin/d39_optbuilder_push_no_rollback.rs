//! D39 (C02): `OptBuilder::push` / `push_raw_option` wrote the option code and length and then the data without
//! rolling back when a later step failed: a failed option push left a 4-octet stub in the message; if the caller
//! went on (an optional option), the finished message carried an OPT record that does not parse.
use domain::base::iana::OptionCode;
use domain::base::opt::UnknownOptData;
use domain::base::{Message, MessageBuilder};

fn main() {
    // room for the header, the 11-octet OPT record and 4 more octets
    let target = octseq::array::Array::<27>::new();
    let mut msg = MessageBuilder::from_target(target).unwrap().additional();
    let mut failed = false;
    let (mut before, mut after) = (0, 0);
    let r = msg.opt(|o| {
        before = o.as_target().as_ref().len();
        // 10 octets of data do not fit
        failed = o.push(&UnknownOptData::new(OptionCode::NSID, [7u8; 10]).unwrap()).is_err();
        after = o.as_target().as_ref().len();
        Ok(())
    });
    println!("opt() -> {:?}; option push failed = {}; message length before the push {} and after {}", r.is_ok(), failed, before, after);
    let bytes = msg.as_slice().to_vec();
    let parsed = Message::from_octets(bytes.clone()).unwrap();
    let ok_opt = parsed.opt().is_some();
    println!("finished message: {:02x?}; OPT record parses: {}", &bytes[..], ok_opt);
    if failed && (after != before || !ok_opt) {
        println!("FAIL: the failed push left octets behind");
        std::process::exit(1);
    }
    println!("OK");
}
