//! D21 (C04): `CanonicalOrd for SvcbRdata` (SVCB, HTTPS) compared the target with `name_cmp` (rightmost label
//! first, case-insensitive) although the canonical RDATA contains the target name as it is: the canonical order
//! disagreed with the octet order of the canonical RDATA (RFC 4034 6.3).
use domain::base::cmp::CanonicalOrd;
use domain::base::name::Name;
use domain::base::rdata::ComposeRecordData;
use domain::rdata::svcb::{SvcParams, Svcb};
use std::str::FromStr;

fn svcb(target: &str) -> Svcb<Vec<u8>, Name<Vec<u8>>> {
    Svcb::new(1, Name::from_str(target).unwrap(), SvcParams::from_octets(Vec::new()).ok().unwrap()).unwrap()
}
fn canon(d: &Svcb<Vec<u8>, Name<Vec<u8>>>) -> Vec<u8> {
    let mut v = Vec::new();
    d.compose_canonical_rdata(&mut v).unwrap();
    v
}
fn check(x: &str, y: &str) -> bool {
    let (a, b) = (svcb(x), svcb(y));
    let (c, w) = (a.canonical_cmp(&b), canon(&a).cmp(&canon(&b)));
    println!("target {} vs {}: canonical_cmp = {:?}, canonical RDATA order = {:?}", x, y, c, w);
    if c != w {
        println!("FAIL: canonical_cmp differs from the octet order of the canonical RDATA");
    }
    c == w
}
fn main() {
    let mut ok = true;
    ok &= check("a.b.", "b.a.");
    ok &= check("A.", "a.");
    ok &= check("a.example.", "b.example.");
    if !ok {
        std::process::exit(1);
    }
    println!("OK");
}
