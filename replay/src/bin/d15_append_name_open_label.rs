//! D15 (C03): NameBuilder::append_name while a label is open never writes that label's length octet.
use domain::base::name::{NameBuilder, RelativeName};
fn valid_rel(s: &[u8]) -> bool {
    let mut i = 0;
    while i < s.len() {
        let l = s[i] as usize;
        if l == 0 || l > 63 || i + 1 + l > s.len() { return false; }
        i += 1 + l;
    }
    s.len() <= 254
}
fn main() {
    let tail = RelativeName::from_slice(b"\x03com").unwrap();
    let mut b = NameBuilder::new_vec();
    b.push(b'w').unwrap();
    b.push(b'w').unwrap();          // open label "ww"
    b.append_name(&tail).unwrap();  // documented: ends the open label, then appends the name
    let name = b.finish();
    println!("push 'w','w'; append_name(\"com\") -> octets {:?}", name.as_slice());
    if !valid_rel(name.as_slice()) || name.as_slice() != b"\x02ww\x03com" {
        println!("INVALID relative name (expected 02 'w' 'w' 03 'c' 'o' 'm')");
        std::process::exit(1);
    }
    println!("OK");
}
