//! C12 native search (a bounded exploration of the real crate, run on every check): RSA keys.
//!
//! Part 1 -- crypto::common::rsa_exponent_modulus (the function through which every RSA DNSKEY reaches the verifier)
//! against RFC 3110 section 2 written out independently: over both encodings of the exponent length, exponent and modulus
//! lengths on both sides of every limit (0, 1, 512, 513 octets), leading zero octets, keys cut short and a minimum
//! modulus length on both sides of the actual one, a key is accepted exactly when exponent and modulus are 1..=512 octets
//! without a leading zero octet and the modulus is at least as long as asked for, and the parts handed out are the
//! octets of the key.
//!
//! Part 2 -- RRsets signed with RSASHA256 keys of 2048 and 4096 bits (the smallest size the signer takes and the largest
//! size RFC 3110 allows; key material generated for this check, fixtures/) verify under the signer's own
//! DNSKEY over the data the validator reconstructs; an altered RRset does not.
use bytes::Bytes;
use domain::base::iana::{Class, SecurityAlgorithm};
use domain::base::{Name, Record, Ttl};
use domain::crypto::common::{rsa_exponent_modulus, AlgorithmError};
use domain::crypto::sign::{KeyPair, SecretKeyBytes};
use domain::dnssec::sign::keys::SigningKey;
use domain::dnssec::sign::records::Rrset;
use domain::dnssec::sign::signatures::rrsigs::sign_rrset;
use domain::dnssec::validator::base::RrsigExt;
use domain::rdata::dnssec::Timestamp;
use domain::rdata::{Dnskey, A};
use domain::utils::base64;
use std::str::FromStr;

type N = Name<Bytes>;

fn fail(msg: String) -> ! {
    println!("FAIL: {msg}");
    std::process::exit(1);
}

/// RFC 3110 section 2, independently: Some((exponent, modulus)) if the key field is well-formed and within the limits
fn reference(key: &[u8], min_len: usize) -> Option<Result<(Vec<u8>, Vec<u8>), ()>> {
    // the result is None where RFC 3110 leaves room (a three-octet length that would have fit into one octet)
    let (exp_len, rest) = match key.first() {
        None => return Some(Err(())),
        Some(0) => {
            if key.len() < 3 {
                return Some(Err(()));
            }
            let l = (key[1] as usize) << 8 | key[2] as usize;
            if l < 256 {
                return None;
            }
            (l, &key[3..])
        }
        Some(&l) => (l as usize, &key[1..]),
    };
    if rest.len() < exp_len {
        return Some(Err(()));
    }
    let (e, n) = rest.split_at(exp_len);
    for part in [e, n] {
        if part.is_empty() || part.len() > 512 || part[0] == 0 {
            return Some(Err(()));
        }
    }
    if n.len() < min_len {
        return Some(Err(()));
    }
    Some(Ok((e.to_vec(), n.to_vec())))
}

fn part1() -> u64 {
    let lens = [0usize, 1, 2, 3, 4, 127, 128, 129, 255, 256, 257, 511, 512, 513, 600, 1024];
    let mut cases = 0u64;
    for &el in &lens {
        for &nl in &lens {
            for three_octet_len in [false, true] {
                if !three_octet_len && el > 255 {
                    continue;
                }
                for (e0, n0) in [(1u8, 0x80u8), (0, 0x80), (1, 0), (0xFF, 0xFF)] {
                    for cut in [0usize, 1] {
                        let mut key = Vec::new();
                        if three_octet_len {
                            key.push(0);
                            key.extend_from_slice(&(el as u16).to_be_bytes());
                        } else {
                            key.push(el as u8);
                        }
                        let mut e = vec![0x5Au8; el];
                        if el > 0 {
                            e[0] = e0;
                        }
                        let mut n = vec![0xA5u8; nl];
                        if nl > 0 {
                            n[0] = n0;
                        }
                        key.extend_from_slice(&e);
                        key.extend_from_slice(&n);
                        if cut > 0 && key.len() > cut {
                            key.truncate(key.len() - cut);
                        }
                        let Ok(dnskey) = Dnskey::new(256, 3, SecurityAlgorithm::RSASHA256, key.clone()) else {
                            continue;
                        };
                        for min_len in [0usize, 1, 64, 128, 256, 512, 513] {
                            cases += 1;
                            // "no malformed key makes the validator panic": a panic inside the library is a finding, not a crash of the search
                            let got = match std::panic::catch_unwind(std::panic::AssertUnwindSafe(|| rsa_exponent_modulus(&dnskey, min_len))) {
                                Ok(g) => g,
                                Err(_) => fail(format!(
                                    "rsa_exponent_modulus panics on a key field of {} octets (exponent length {} in {} octet(s), modulus of {} octets, cut {}), minimum modulus {}: {:02x?}",
                                    key.len(), el, if three_octet_len { 3 } else { 1 }, nl, cut, min_len, &key[..key.len().min(12)])),
                            };
                            let Some(want) = reference(&key, min_len) else { continue };
                            let agree = match (&got, &want) {
                                (Ok((ge, gn)), Ok((we, wn))) => ge == we && gn == wn,
                                (Err(AlgorithmError::InvalidData), Err(())) | (Err(AlgorithmError::Unsupported), Err(())) => true,
                                _ => false,
                            };
                            if !agree {
                                fail(format!(
                                    "rsa_exponent_modulus: key field of {} octets (exponent length {} in {} octet(s), exponent starts {:#04x}, \
                                     modulus of {} octets starts {:#04x}, cut {}), minimum modulus {}: library says {}, RFC 3110 section 2 says {}",
                                    key.len(), el, if three_octet_len { 3 } else { 1 }, e0, nl, n0, cut, min_len,
                                    match &got { Ok((a, b)) => format!("Ok(exponent {} octets, modulus {} octets)", a.len(), b.len()), Err(x) => format!("Err({x})") },
                                    match &want { Ok((a, b)) => format!("accept (exponent {} octets, modulus {} octets)", a.len(), b.len()), Err(()) => "reject".into() },
                                ));
                            }
                        }
                    }
                }
            }
        }
    }
    cases
}

fn records() -> Vec<Record<N, A>> {
    ["192.0.2.7", "192.0.2.1", "198.51.100.3"]
        .iter()
        .map(|a| Record::new(N::from_str("www.example.").unwrap(), Class::IN, Ttl::from_secs(3600), A::from_str(a).unwrap()))
        .collect()
}

fn part2(bits: usize, private: &str, public_b64: &str) {
    let secret = SecretKeyBytes::parse_from_bind(private).unwrap_or_else(|e| fail(format!("RSA-{bits}: fixture does not parse: {e}")));
    let pk: Vec<u8> = base64::decode(public_b64.trim()).unwrap();
    let dnskey = Dnskey::new(256, 3, SecurityAlgorithm::RSASHA256, Bytes::from(pk)).unwrap();
    let pair = KeyPair::from_bytes(&secret, &dnskey).unwrap_or_else(|e| fail(format!("RSA-{bits}: the signer does not take the key: {e}")));
    let key: SigningKey<Bytes, KeyPair> = SigningKey::new(N::from_str("example.").unwrap(), 256, pair);
    let recs = records();
    let rrset = Rrset::new_from_owned(&recs).unwrap();
    let rrsig = sign_rrset(&key, &rrset, Timestamp::from(1_700_000_000), Timestamp::from(1_702_592_000))
        .unwrap_or_else(|e| fail(format!("RSA-{bits}: signing failed: {e}")));
    if rrsig.data().key_tag() != dnskey.key_tag() || rrsig.data().algorithm() != SecurityAlgorithm::RSASHA256 {
        fail(format!("RSA-{bits}: the RRSIG does not name the key"));
    }
    let mut received = records();
    received.reverse();
    let mut signed_data = Vec::new();
    rrsig.data().signed_data(&mut signed_data, &mut received).unwrap();
    if let Err(e) = rrsig.data().verify_signed_data(&dnskey, &signed_data) {
        fail(format!(
            "RSA-{bits}: the signature the signer made does not verify under its own DNSKEY (public key field of {} octets): {e}",
            dnskey.public_key().len()
        ));
    }
    let mut bad = signed_data.clone();
    let last = bad.len() - 1;
    bad[last] ^= 1;
    if rrsig.data().verify_signed_data(&dnskey, &bad).is_ok() {
        fail(format!("RSA-{bits}: an altered RRset still verifies"));
    }
}

fn main() {
    let cases = part1();
    part2(2048, include_str!("../../fixtures/rsa2048.private"), include_str!("../../fixtures/rsa2048.pub.b64"));
    part2(4096, include_str!("../../fixtures/rsa4096.private"), include_str!("../../fixtures/rsa4096.pub.b64"));
    println!("OK: {cases} RSA key fields agree with RFC 3110 section 2; RSASHA256 signatures by 2048 and 4096 bit keys verify");
}
