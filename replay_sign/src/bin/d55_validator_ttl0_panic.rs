//! D55 (C14): "no upstream response content makes the validator panic". Node::ttl() (dnssec/validator/context.rs) computed
//! `valid_for - created_at.elapsed()` on core::time::Duration, which panics when the node has outlived its validity -- at
//! once for a DNSKEY RRset served with TTL 0 (create_child_node asks the parent node for its remaining TTL). A hierarchy
//! . -> test. -> example.test. with generated ECDSA keys behind an in-memory upstream (harness written by a round-7 seeding
//! sub-agent): with the DNSKEY RRset of a zone on the chain at TTL 0, validate_msg must return a verdict.
#![allow(dead_code, unused_imports)]
use std::collections::HashMap;
use std::future::Future;
use std::pin::Pin;
use std::str::FromStr;
use std::sync::{Arc, Mutex};

use bytes::Bytes;
use domain::base::iana::{Class, DigestAlgorithm, Rcode};
use domain::base::name::Name;
use domain::base::{
    Message, MessageBuilder, Record, Rtype, ToName, Ttl,
};
use domain::crypto::sign::{generate, GenerateParams, KeyPair, SignRaw};
use domain::dnssec::validator::anchor::TrustAnchors;
use domain::dnssec::validator::base::{DnskeyExt, RrsigExt};
use domain::dnssec::validator::context::{
    ValidationContext, ValidationState,
};
use domain::net::client::request::{
    ComposeRequest, Error, GetResponse, RequestMessage, SendRequest,
};
use domain::rdata::dnssec::Timestamp;
use domain::rdata::dnssec::RtypeBitmap;
use domain::rdata::{Dnskey, Ds, Nsec, Rrsig, ZoneRecordData, A};

type N = Name<Bytes>;
type Zrd = ZoneRecordData<Bytes, N>;
type Rec = Record<N, Zrd>;

fn name(s: &str) -> N {
    N::from_str(s).unwrap()
}

const TTL: u32 = 3600;

//------------ keys and signing ----------------------------------------------

struct ZoneKey {
    apex: N,
    kp: KeyPair,
    dnskey: Dnskey<Bytes>,
}

impl ZoneKey {
    fn new(apex: &str) -> Self {
        Self::with_flags(apex, 257)
    }

    fn with_flags(apex: &str, flags: u16) -> Self {
        let (sk, pk) =
            generate(&GenerateParams::EcdsaP256Sha256, flags).unwrap();
        let kp = KeyPair::from_bytes(&sk, &pk).unwrap();
        let dnskey = Dnskey::new(
            pk.flags(),
            pk.protocol(),
            pk.algorithm(),
            Bytes::copy_from_slice(pk.public_key().as_ref()),
        )
        .unwrap();
        ZoneKey {
            apex: name(apex),
            kp,
            dnskey,
        }
    }

    fn dnskey_rr(&self) -> Rec {
        Record::new(
            self.apex.clone(),
            Class::IN,
            Ttl::from_secs(TTL),
            Zrd::Dnskey(self.dnskey.clone()),
        )
    }

    fn ds_rr(&self) -> Rec {
        let digest = self
            .dnskey
            .digest(&self.apex, DigestAlgorithm::SHA256)
            .unwrap();
        let ds = Ds::new(
            self.dnskey.key_tag(),
            self.dnskey.algorithm(),
            DigestAlgorithm::SHA256,
            Bytes::copy_from_slice(digest.as_ref()),
        )
        .unwrap();
        Record::new(
            self.apex.clone(),
            Class::IN,
            Ttl::from_secs(TTL),
            Zrd::Ds(ds),
        )
    }

    /// Sign an RRset, return the RRSIG record.
    fn sign(&self, rrs: &[Rec]) -> Rec {
        let owner = rrs[0].owner().clone();
        let mut labels = owner.label_count() - 1;
        if owner.first().is_wildcard() {
            labels -= 1;
        }
        let now = Timestamp::now().into_int();
        let mk = |sig: Bytes| {
            Rrsig::<Bytes, N>::new(
                rrs[0].rtype(),
                self.dnskey.algorithm(),
                labels as u8,
                Ttl::from_secs(TTL),
                Timestamp::from(now + 86400),
                Timestamp::from(now - 3600),
                self.dnskey.key_tag(),
                self.apex.clone(),
                sig,
            )
            .unwrap()
        };
        let tmp = mk(Bytes::new());
        let mut data = Vec::new();
        let mut recs: Vec<Rec> = rrs.to_vec();
        tmp.signed_data(&mut data, &mut recs).unwrap();
        let sig = self.kp.sign_raw(&data).unwrap();
        let rrsig = mk(Bytes::copy_from_slice(sig.as_ref()));
        Record::new(owner, Class::IN, Ttl::from_secs(TTL), Zrd::Rrsig(rrsig))
    }

    /// An RRset followed by its signature.
    fn signed(&self, rrs: &[Rec]) -> Vec<Rec> {
        let mut v = rrs.to_vec();
        v.push(self.sign(rrs));
        v
    }
}

//------------ in-memory upstream --------------------------------------------

#[derive(Clone, Default)]
struct Upstream {
    data: Arc<Mutex<HashMap<(N, Rtype), (Vec<Rec>, Vec<Rec>)>>>,
}

impl Upstream {
    fn put_auth(&self, qname: &N, qtype: Rtype, auth: Vec<Rec>) {
        self.data
            .lock()
            .unwrap()
            .insert((qname.clone(), qtype), (Vec::new(), auth));
    }

    fn put(&self, qname: &N, qtype: Rtype, answer: Vec<Rec>) {
        self.data
            .lock()
            .unwrap()
            .insert((qname.clone(), qtype), (answer, Vec::new()));
    }
}

#[derive(Debug)]
struct Resp(Option<Result<Message<Bytes>, Error>>);

impl GetResponse for Resp {
    fn get_response(
        &mut self,
    ) -> Pin<
        Box<
            dyn Future<Output = Result<Message<Bytes>, Error>>
                + Send
                + Sync
                + '_,
        >,
    > {
        let res = self.0.take().unwrap();
        Box::pin(async move { res })
    }
}

impl SendRequest<RequestMessage<Vec<u8>>> for Upstream {
    fn send_request(
        &self,
        request_msg: RequestMessage<Vec<u8>>,
    ) -> Box<dyn GetResponse + Send + Sync> {
        let req = request_msg.to_message().unwrap();
        let q = req.sole_question().unwrap();
        let qname: N = q.qname().to_name();
        let qtype = q.qtype();
        let map = self.data.lock().unwrap();
        let msg = match map.get(&(qname.clone(), qtype)) {
            Some((answer, auth)) => {
                build_msg(&qname, qtype, Rcode::NOERROR, answer, auth)
            }
            None => build_msg(&qname, qtype, Rcode::SERVFAIL, &[], &[]),
        };
        Box::new(Resp(Some(Ok(msg))))
    }
}

fn build_msg(
    qname: &N,
    qtype: Rtype,
    rcode: Rcode,
    answer: &[Rec],
    authority: &[Rec],
) -> Message<Bytes> {
    let mut mb = MessageBuilder::new_vec();
    mb.header_mut().set_qr(true);
    mb.header_mut().set_rcode(rcode);
    let mut mb = mb.question();
    mb.push((qname, qtype)).unwrap();
    let mut mb = mb.answer();
    for rr in answer {
        mb.push(rr.clone()).unwrap();
    }
    let mut mb = mb.authority();
    for rr in authority {
        mb.push(rr.clone()).unwrap();
    }
    Message::from_octets(Bytes::from(mb.finish())).unwrap()
}


fn a_rr(owner: &N, addr: [u8; 4]) -> Rec {
    Record::new(owner.clone(), Class::IN, Ttl::from_secs(TTL),
        Zrd::A(A::from_octets(addr[0], addr[1], addr[2], addr[3])))
}

async fn validate(vc: &ValidationContext<Upstream>, msg: Message<Bytes>) -> ValidationState {
    let mut msg = msg;
    match vc.validate_msg(&mut msg).await {
        Ok((state, ede)) => { println!("   ede: {:?}", ede.map(|e| e.to_string())); state }
        Err(e) => panic!("validate_msg failed: {e}"),
    }
}

fn with_ttl(mut v: Vec<Rec>, ttl: u32) -> Vec<Rec> {
    for r in v.iter_mut() { r.set_ttl(Ttl::from_secs(ttl)); }
    v
}

fn main() {
    std::panic::set_hook(Box::new(|_| {}));
    let rt = tokio::runtime::Builder::new_current_thread().enable_all().build().unwrap();
    let r = std::panic::catch_unwind(|| rt.block_on(run()));
    match r {
        Ok(true) => println!("OK"),
        Ok(false) => std::process::exit(1),
        Err(e) => {
            let msg = e.downcast_ref::<String>().cloned().or_else(|| e.downcast_ref::<&str>().map(|s| s.to_string())).unwrap_or_default();
            println!("FAIL: the validator panics on upstream content: {msg}");
            std::process::exit(1);
        }
    }
}

async fn run() -> bool {
    let root = ZoneKey::new(".");
    let tld = ZoneKey::new("test.");
    let zone = ZoneKey::new("example.test.");
    let up = Upstream::default();
    up.put(&root.apex, Rtype::DNSKEY, root.signed(&[root.dnskey_rr()]));
    up.put(&tld.apex, Rtype::DS, root.signed(&[tld.ds_rr()]));
    up.put(&tld.apex, Rtype::DNSKEY, tld.signed(&[tld.dnskey_rr()]));
    up.put(&zone.apex, Rtype::DS, tld.signed(&[zone.ds_rr()]));
    up.put(&zone.apex, Rtype::DNSKEY, zone.signed(&[zone.dnskey_rr()]));
    let ta_str = format!(". 3600 IN DNSKEY {}", root.dnskey);
    let www = name("www.example.test.");
    let rrs = [a_rr(&www, [192, 0, 2, 1])];
    let mut ok = true;
    // control: a correctly signed answer from a correctly signed hierarchy is secure
    let vc = ValidationContext::new(TrustAnchors::from_u8(ta_str.as_bytes()).unwrap(), up.clone());
    let st = validate(&vc, build_msg(&www, Rtype::A, Rcode::NOERROR, &zone.signed(&rrs), &[])).await;
    println!("control, correctly signed: {st:?}");
    if !matches!(st, ValidationState::Secure) {
        println!("FAIL: the control answer is not reported secure");
        ok = false;
    }
    // the DNSKEY RRset of a zone on the chain served with TTL 0 (legal upstream content): any verdict, but no panic
    for (which, apex, key) in [("trust anchor zone", &root.apex, &root), ("test.", &tld.apex, &tld), ("example.test.", &zone.apex, &zone)] {
        let up2 = Upstream { data: Arc::new(Mutex::new(up.data.lock().unwrap().clone())) };
        up2.put(apex, Rtype::DNSKEY, with_ttl(key.signed(&[key.dnskey_rr()]), 0));
        let vc2 = ValidationContext::new(TrustAnchors::from_u8(ta_str.as_bytes()).unwrap(), up2);
        let st = validate(&vc2, build_msg(&www, Rtype::A, Rcode::NOERROR, &zone.signed(&rrs), &[])).await;
        println!("DNSKEY RRset of the {which} with TTL 0: {st:?}");
    }
    ok
}
