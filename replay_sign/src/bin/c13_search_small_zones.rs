//! C13 native search (a bounded exploration of the real crate, run on every check): every zone made of the apex
//! (SOA, NS) and a subset of eleven other owner names -- ordinary names, a wildcard, two delegation points (one with a
//! DS), glue and deeper names below them, names that create empty non-terminals, names outside the zone before and
//! after it -- goes through `generate_nsecs` and `generate_nsec3s` (2048 zones, both DNSKEY settings). An independent
//! description of the result is checked: NSEC -- one record per owner name in the zone that is not below a delegation
//! point (declaratively: no other name of the zone with an NS RRset is a proper suffix), in canonical order, each
//! pointing to the next and the last to the apex, the bitmap exactly RRSIG, NSEC, the types at the name (NS and DS
//! only at a delegation point) and DNSKEY at the apex when configured, TTL = min(SOA MINIMUM, SOA TTL), class IN;
//! NSEC3 -- one record per such name and per empty non-terminal above one, owner = hash label under the apex, sorted
//! by hash (the hash label is compared with an independent RFC 5155 section 5 computation: iterated SHA-1 of the
//! lower-cased wire name and the salt, Base32hex), next-hashed-owner = the hash of the next record (the last one wraps
//! around), no NSEC bit, an empty bitmap
//! exactly at empty non-terminals, NS (plus DS and RRSIG when there is a DS) at delegation points, types + RRSIG
//! elsewhere.
use std::collections::BTreeSet;
use std::str::FromStr;

use bytes::Bytes;
use domain::base::iana::{Class, Rtype};
use domain::base::name::{Name, ToLabelIter};
use domain::base::{CanonicalOrd, Record, Serial, Ttl};
use domain::dnssec::sign::denial::nsec::{generate_nsecs, GenerateNsecConfig};
use domain::dnssec::sign::denial::nsec3::{generate_nsec3s, mk_hashed_nsec3_owner_name, GenerateNsec3Config};
use domain::dnssec::sign::records::SortedRecords;
use domain::rdata::{Ds, Ns, Soa, ZoneRecordData, A};

type N = Name<Bytes>;
type D = ZoneRecordData<Bytes, N>;

fn fail(msg: String) -> ! {
    println!("FAILING INPUT: {}", msg);
    std::process::exit(1);
}
fn n(s: &str) -> N {
    N::from_str(s).unwrap()
}
fn rec(owner: &str, ttl: u32, data: D) -> Record<N, D> {
    Record::new(n(owner), Class::IN, Ttl::from_secs(ttl), data)
}
fn a() -> D {
    ZoneRecordData::A(A::from_octets(192, 0, 2, 1))
}
fn txt() -> D {
    ZoneRecordData::Txt(domain::rdata::Txt::build_from_slice(b"child side").unwrap())
}
/// the SOA of a child zone as it may appear (occluded) at a delegation point of the parent's zone file; same MINIMUM
/// and TTL as the apex SOA of the generated zones
fn child_soa() -> D {
    ZoneRecordData::Soa(Soa::new(n("ns.sdeleg.example."), n("admin.sdeleg.example."), Serial(7), Ttl::from_secs(1), Ttl::from_secs(2), Ttl::from_secs(3), Ttl::from_secs(1800)))
}
fn ns() -> D {
    ZoneRecordData::Ns(Ns::new(n("ns.elsewhere.")))
}
fn ds() -> D {
    ZoneRecordData::Ds(
        Ds::new(1, domain::base::iana::SecurityAlgorithm::ED25519, domain::base::iana::DigestAlgorithm::SHA256, Bytes::from_static(&[7; 32]))
            .unwrap(),
    )
}
/// RFC 5155 section 5: IH(salt, x, 0) = H(x || salt), IH(salt, x, k) = H(IH(salt, x, k-1) || salt), over the owner name
/// in canonical (lower-cased, uncompressed) wire form, H = SHA-1; written in unpadded Base32hex
fn independent_nsec3_label(name: &N, iterations: u16, salt: &[u8]) -> String {
    let mut wire: Vec<u8> = Vec::new();
    for label in name.iter_labels() {
        wire.push(label.len() as u8);
        wire.extend(label.as_slice().iter().map(|c| c.to_ascii_lowercase()));
    }
    let mut h: Vec<u8> = wire;
    for _ in 0..=iterations {
        let mut ctx = ring::digest::Context::new(&ring::digest::SHA1_FOR_LEGACY_USE_ONLY);
        ctx.update(&h);
        ctx.update(salt);
        h = ctx.finish().as_ref().to_vec();
    }
    const ALPHABET: &[u8; 32] = b"0123456789abcdefghijklmnopqrstuv";
    let (mut out, mut acc, mut bits) = (String::new(), 0u32, 0u32);
    for b in h {
        acc = (acc << 8) | b as u32;
        bits += 8;
        while bits >= 5 {
            out.push(ALPHABET[((acc >> (bits - 5)) & 31) as usize] as char);
            bits -= 5;
        }
    }
    if bits > 0 {
        out.push(ALPHABET[((acc << (5 - bits)) & 31) as usize] as char);
    }
    out
}
/// proper suffix test on label sequences, ignoring case
fn below(name: &N, anc: &N) -> bool {
    name.label_count() > anc.label_count() && name.ends_with(anc)
}

fn main() {
    std::thread::spawn(|| {
        std::thread::sleep(std::time::Duration::from_secs(120));
        println!("FAILING INPUT: the search does not finish within 120 s");
        std::process::exit(1);
    });
    let apex = n("example.");
    // (owner, records at the owner)
    let optional: Vec<(&str, Vec<D>)> = vec![
        ("a.example.", vec![a()]),
        ("*.w.example.", vec![a()]),                 // w.example. becomes an empty non-terminal
        ("deleg.example.", vec![ns(), txt()]),       // insecure delegation that also holds a child-side type
        ("ns.deleg.example.", vec![a()]),            // glue
        ("x.y.ns.deleg.example.", vec![a()]),        // deeper below the cut
        ("sdeleg.example.", vec![ns(), ds(), child_soa()]), // secure delegation; the zone file also carries the child's SOA
        ("www.sdeleg.example.", vec![a()]),          // occluded
        ("p.q.r.example.", vec![a()]),               // two empty non-terminals
        ("Z.example.", vec![a(), ZoneRecordData::Ns(Ns::new(n("a.example.")))]), // a delegation point with an A record (occluded data at the cut), upper case
        ("zz.z.example.", vec![a()]),                // below it
        ("c.b.a.example.", vec![a()]),               // an empty non-terminal below a name that may own records
    ];
    let outside = [("a.aaa.", a()), ("example.org.", a()), ("zzz.", a())];
    let mut zones = 0u32;
    for mask in 0u32..(1 << optional.len()) {
        for with_dnskey in [true, false] {
            let mut recs: SortedRecords<N, D> = SortedRecords::new();
            let soa = Soa::new(n("ns.example."), n("admin.example."), Serial(1), Ttl::from_secs(1), Ttl::from_secs(2), Ttl::from_secs(3), Ttl::from_secs(1800));
            let soa_ttl = if mask % 2 == 0 { 3600 } else { 600 };
            recs.insert(rec("example.", soa_ttl, ZoneRecordData::Soa(soa))).unwrap();
            recs.insert(rec("example.", 3600, ns())).unwrap();
            let mut present: Vec<(N, Vec<Rtype>)> = vec![(apex.clone(), vec![Rtype::SOA, Rtype::NS])];
            for (i, (owner, datas)) in optional.iter().enumerate() {
                if mask & (1 << i) != 0 {
                    for d in datas {
                        // (the child's SOA gets the TTL of the apex SOA: what an occluded SOA with other values does
                        // to the TTL of the chain is not judged here)
                        let ttl = if matches!(d, ZoneRecordData::Soa(_)) { soa_ttl } else { 3600 };
                        recs.insert(rec(owner, ttl, d.clone())).unwrap();
                    }
                    present.push((n(owner), datas.iter().map(|d| domain::base::rdata::RecordData::rtype(d)).collect()));
                }
            }
            if mask % 4 == 3 {
                for (o, d) in outside.iter() {
                    recs.insert(rec(o, 3600, d.clone())).unwrap();
                }
            }
            zones += 1;
            let desc = format!(
                "zone example. with {:?}{}, assume_dnskeys_will_be_added = {}",
                present.iter().skip(1).map(|(o, _)| o.to_string()).collect::<Vec<_>>(),
                if mask % 4 == 3 { " and names outside the zone" } else { "" },
                with_dnskey
            );
            // ---- the independent description
            let cuts: Vec<N> = present.iter().filter(|(o, t)| *o != apex && t.contains(&Rtype::NS)).map(|(o, _)| o.clone()).collect();
            let mut auth: Vec<(N, Vec<Rtype>)> =
                present.iter().filter(|(o, _)| !cuts.iter().any(|c| below(o, c))).cloned().collect();
            auth.sort_by(|x, y| x.0.canonical_cmp(&y.0));
            let exp_ttl = Ttl::from_secs(soa_ttl.min(1800));
            // ---- NSEC
            let cfg = if with_dnskey { GenerateNsecConfig::new() } else { GenerateNsecConfig::new().without_assuming_dnskeys_will_be_added() };
            let nsecs = match generate_nsecs(&apex, recs.owner_rrs(), &cfg) {
                Ok(v) => v,
                Err(e) => fail(format!("{}: generate_nsecs fails: {}", desc, e)),
            };
            if nsecs.len() != auth.len() {
                fail(format!("{}: {} NSEC records for {} authoritative owner names ({:?})", desc, nsecs.len(), auth.len(),
                    nsecs.iter().map(|r| r.owner().to_string()).collect::<Vec<_>>()));
            }
            for (i, (r, (owner, types))) in nsecs.iter().zip(auth.iter()).enumerate() {
                if r.owner() != owner {
                    fail(format!("{}: NSEC {} is at {} (expected {})", desc, i, r.owner(), owner));
                }
                let next = if i + 1 < auth.len() { &auth[i + 1].0 } else { &apex };
                if r.data().next_name() != next {
                    fail(format!("{}: the NSEC at {} points to {} (expected {})", desc, owner, r.data().next_name(), next));
                }
                let is_cut = cuts.contains(owner);
                let mut exp: BTreeSet<Rtype> = [Rtype::RRSIG, Rtype::NSEC].into_iter().collect();
                for t in types {
                    if !is_cut || *t == Rtype::NS || *t == Rtype::DS {
                        exp.insert(*t);
                    }
                }
                if with_dnskey && *owner == apex {
                    exp.insert(Rtype::DNSKEY);
                }
                let got: BTreeSet<Rtype> = r.data().types().iter().collect();
                if got != exp {
                    fail(format!("{}: the NSEC at {} lists {:?} (expected {:?})", desc, owner, got, exp));
                }
                if r.ttl() != exp_ttl || r.class() != Class::IN {
                    fail(format!("{}: the NSEC at {} has class {} TTL {:?} (expected IN, {:?})", desc, owner, r.class(), r.ttl(), exp_ttl));
                }
            }
            // ---- NSEC3: without opt-out, with opt-out excluding the insecure delegations (the default of with_opt_out), and with
            // the opt-out flag but every name kept
            for optout in 0..3u8 {
            let desc = format!("{desc}, NSEC3 opt-out mode {optout} (0 none, 1 flag + insecure delegations excluded, 2 flag only)");
            let cfg3: GenerateNsec3Config<Bytes, domain::dnssec::sign::records::DefaultSorter> = if with_dnskey {
                GenerateNsec3Config::default()
            } else {
                GenerateNsec3Config::default().without_assuming_dnskeys_will_be_added()
            };
            let cfg3 = match optout {
                0 => cfg3,
                1 => cfg3.with_opt_out(),
                _ => cfg3.with_opt_out().without_opt_out_excluding_owner_names_of_unsigned_delegations(),
            };
            // with exclusion, an insecure delegation (NS without DS) gets no NSEC3 (RFC 5155 7.1) -- and neither does an
            // empty non-terminal that is only there because of it
            let auth: Vec<(N, Vec<Rtype>)> = auth
                .iter()
                .filter(|(o, t)| !(optout == 1 && cuts.contains(o) && !t.contains(&Rtype::DS)))
                .cloned()
                .collect();
            let out = match generate_nsec3s(&apex, recs.owner_rrs(), &cfg3) {
                Ok(v) => v,
                Err(e) => fail(format!("{}: generate_nsec3s fails: {}", desc, e)),
            };
            // names that get an NSEC3: the authoritative names and the empty non-terminals above them
            let mut names: Vec<(N, Option<Vec<Rtype>>)> = auth.iter().map(|(o, t)| (o.clone(), Some(t.clone()))).collect();
            for (o, _) in auth.iter() {
                let mut cur: N = o.clone();
                while let Some(parent) = cur.parent() {
                    let parent: N = parent;
                    if !below(&parent, &apex) {
                        break;
                    }
                    if !names.iter().any(|(x, _)| *x == parent) {
                        names.push((parent.clone(), None));
                    }
                    cur = parent;
                }
            }
            let params = &cfg3.params;
            let mut exp3: Vec<(N, N, Option<Vec<Rtype>>)> = names
                .iter()
                .map(|(o, t)| {
                    let h: N = mk_hashed_nsec3_owner_name::<N, Bytes, Bytes>(o, params.hash_algorithm(), params.iterations(), params.salt(), &apex).unwrap();
                    let own = independent_nsec3_label(o, params.iterations(), params.salt().as_slice());
                    if h.first().to_string().to_ascii_lowercase() != own {
                        fail(format!("{}: the NSEC3 owner label for {} is {} (independent iterated SHA-1: {})", desc, o, h.first(), own));
                    }
                    (h, o.clone(), t.clone())
                })
                .collect();
            exp3.sort_by(|x, y| x.0.canonical_cmp(&y.0));
            if out.nsec3s.len() != exp3.len() {
                fail(format!("{}: {} NSEC3 records for {} names (authoritative names and empty non-terminals {:?})", desc, out.nsec3s.len(),
                    exp3.len(), exp3.iter().map(|x| x.1.to_string()).collect::<Vec<_>>()));
            }
            for (i, (r, (h, o, types))) in out.nsec3s.iter().zip(exp3.iter()).enumerate() {
                if r.owner() != h {
                    fail(format!("{}: NSEC3 {} is at {} (expected {} = the hash of {})", desc, i, r.owner(), h, o));
                }
                let next = &exp3[(i + 1) % exp3.len()].0;
                let next_label = next.first().to_string().to_ascii_lowercase();
                let got_next = format!("{}", r.data().next_owner()).to_ascii_lowercase();
                if got_next != next_label {
                    fail(format!("{}: the NSEC3 of {} has next hashed owner {} (expected {})", desc, o, got_next, next_label));
                }
                if r.data().opt_out() != (optout != 0) {
                    fail(format!("{}: the NSEC3 of {} has opt-out flag {}", desc, o, r.data().opt_out()));
                }
                let got: BTreeSet<Rtype> = r.data().types().iter().collect();
                if got.contains(&Rtype::NSEC) {
                    fail(format!("{}: the NSEC3 of {} lists NSEC", desc, o));
                }
                match types {
                    None => {
                        if !got.is_empty() {
                            fail(format!("{}: the NSEC3 of the empty non-terminal {} lists {:?}", desc, o, got));
                        }
                    }
                    Some(types) => {
                        let is_cut = cuts.contains(o);
                        let mut exp: BTreeSet<Rtype> = BTreeSet::new();
                        for t in types {
                            if !is_cut || *t == Rtype::NS || *t == Rtype::DS {
                                exp.insert(*t);
                            }
                        }
                        if !is_cut || types.contains(&Rtype::DS) {
                            exp.insert(Rtype::RRSIG);
                        }
                        if *o == apex {
                            exp.insert(Rtype::NSEC3PARAM);
                            if with_dnskey {
                                exp.insert(Rtype::DNSKEY);
                            }
                        }
                        if got != exp {
                            fail(format!("{}: the NSEC3 of {} lists {:?} (expected {:?})", desc, o, got, exp));
                        }
                    }
                }
            }
            }
        }
    }
    println!("OK: {} zones, NSEC and NSEC3 chains complete, ordered, closed and exactly typed", zones);
}
