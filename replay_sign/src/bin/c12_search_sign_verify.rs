//! C12 native search (a bounded exploration of the real crate, run on every check): RRsets of A and MX records under
//! ordinary, wildcard and interior-asterisk owners are signed with freshly generated Ed25519 and ECDSA P-256 keys
//! (ring); the RRSIG has to carry the RFC 4034 3.1.3 label count and to verify over the data the validator
//! reconstructs (RrsigExt::signed_data) -- for the RRset as signed, in another record order, with a decremented TTL,
//! with the owner in another case, and as a wildcard expansion with upper-case letters in the replaced and in the
//! kept part of the name; a changed address, a changed owner and an RRSIG of another RRset must not verify;
//! `sign_sorted_rrset_in` is called with one scratch buffer for a sequence of RRsets, with a buffer that is not empty
//! on entry, and again after an attempt in which the key back end (SignRaw::sign_raw) reported an error: every RRSIG
//! that is returned has to verify. DS digests (DnskeyExt::digest, RFC 4034 5.1.4) of the generated keys under owners in
//! mixed case equal an independent computation with ring: SHA-1, SHA-256 and SHA-384 over the lower-cased wire name
//! followed by the DNSKEY RDATA.
use std::str::FromStr;

use domain::base::iana::Class;
use domain::base::name::ToName;
use domain::base::{Name, Record, Ttl};
use domain::base::iana::SecurityAlgorithm;
use domain::crypto::sign::{generate, GenerateParams, KeyPair, SignError, SignRaw, Signature};
use domain::dnssec::sign::keys::SigningKey;
use domain::dnssec::sign::records::Rrset;
use domain::dnssec::sign::signatures::rrsigs::{sign_rrset, sign_sorted_rrset_in};
use domain::base::iana::DigestAlgorithm;
use domain::base::rdata::ComposeRecordData;
use domain::dnssec::validator::base::{DnskeyExt, RrsigExt};
use domain::rdata::dnssec::Timestamp;
use domain::rdata::{Dnskey, Mx, A};

/// A key back end that fails when told to (an HSM or remote signer with a transient error).
#[derive(Debug)]
struct Flaky {
    inner: KeyPair,
    fail_next: std::cell::Cell<bool>,
}
impl SignRaw for Flaky {
    fn algorithm(&self) -> SecurityAlgorithm {
        self.inner.algorithm()
    }
    fn dnskey(&self) -> Dnskey<Vec<u8>> {
        self.inner.dnskey()
    }
    fn sign_raw(&self, data: &[u8]) -> Result<Signature, SignError> {
        if self.fail_next.replace(false) {
            return Err(SignError);
        }
        self.inner.sign_raw(data)
    }
}

type N = Name<Vec<u8>>;
type K = SigningKey<Vec<u8>, KeyPair>;

fn fail(msg: String) -> ! {
    println!("FAILING INPUT: {}", msg);
    std::process::exit(1);
}
fn n(s: &str) -> N {
    N::from_str(s).unwrap()
}
fn a_set(owner: &str, ttl: u32, last: u8) -> Vec<Record<N, A>> {
    vec![
        Record::new(n(owner), Class::IN, Ttl::from_secs(ttl), A::from_octets(192, 0, 2, 2)),
        Record::new(n(owner), Class::IN, Ttl::from_secs(ttl), A::from_octets(192, 0, 2, last)),
    ]
}
fn mx_set(owner: &str, ttl: u32, exch: &str) -> Vec<Record<N, Mx<N>>> {
    vec![
        Record::new(n(owner), Class::IN, Ttl::from_secs(ttl), Mx::new(20, n("MX2.Example."))),
        Record::new(n(owner), Class::IN, Ttl::from_secs(ttl), Mx::new(10, n(exch))),
    ]
}

fn main() {
    std::thread::spawn(|| {
        std::thread::sleep(std::time::Duration::from_secs(60));
        println!("FAILING INPUT: the search does not finish within 60 s");
        std::process::exit(1);
    });
    for params in [GenerateParams::Ed25519, GenerateParams::EcdsaP256Sha256] {
        let (sec, public) = generate(&params, 256).unwrap();
        let key: K = SigningKey::new(n("example."), 256, KeyPair::from_bytes(&sec, &public).unwrap());
        let (inc, exp) = (Timestamp::from(1_000_000), Timestamp::from(2_000_000));
        // (owner in the zone, expected Labels field, owners under which a resolver may hand the RRset to the validator)
        let cases: [(&str, u8, &[&str]); 6] = [
            ("www.example.", 2, &["www.example.", "WwW.eXaMpLe."]),
            ("example.", 1, &["example.", "EXAMPLE."]),
            ("*.example.", 1, &["*.example.", "*.Example.", "a.example.", "A.b.example.", "a.B.eXample."]),
            ("*.w.example.", 2, &["*.w.example.", "a.z.w.example.", "A.Z.w.example.", "a.z.W.eXample."]),
            ("a.*.example.", 3, &["a.*.example.", "A.*.Example."]),
            ("*.*.example.", 2, &["*.*.example.", "x.*.example."]),
        ];
        for (owner, labels, answers) in cases {
            if n(owner).rrsig_label_count() != labels {
                fail(format!("{}.rrsig_label_count() = {} (RFC 4034 3.1.3: {})", owner, n(owner).rrsig_label_count(), labels));
            }
            // A RRset
            let recs = a_set(owner, 3600, 1);
            let sig = sign_rrset(&key, &Rrset::new_from_owned(&recs).unwrap(), inc, exp).unwrap();
            let rrsig = sig.data();
            if rrsig.labels() != labels {
                fail(format!("RRSIG over {} has Labels = {} (expected {})", owner, rrsig.labels(), labels));
            }
            for ans in answers {
                let mut answer = a_set(ans, 1234, 1);
                answer.reverse();
                let mut buf = Vec::new();
                rrsig.signed_data(&mut buf, answer.as_mut_slice()).unwrap();
                if rrsig.verify_signed_data(&key.dnskey(), &buf).is_err() {
                    fail(format!("{:?}: A RRset signed at {} and answered as {} (reordered, TTL decremented) does not verify", params, owner, ans));
                }
            }
            // tampering
            let mut changed = a_set(owner, 3600, 9);
            let mut buf = Vec::new();
            rrsig.signed_data(&mut buf, changed.as_mut_slice()).unwrap();
            if rrsig.verify_signed_data(&key.dnskey(), &buf).is_ok() {
                fail(format!("{:?}: RRset at {} with a changed address verifies", params, owner));
            }
            if !owner.starts_with('*') {
                let mut other = a_set("other.example.", 3600, 1);
                let mut buf = Vec::new();
                rrsig.signed_data(&mut buf, other.as_mut_slice()).unwrap();
                if labels == 2 && rrsig.verify_signed_data(&key.dnskey(), &buf).is_ok() {
                    fail(format!("{:?}: the RRSIG of {} verifies an RRset at other.example.", params, owner));
                }
            }
            // MX RRset (names in the RDATA are lower-cased in the signed data)
            let recs = mx_set(owner, 300, "Mx1.Example.");
            let sig = sign_rrset(&key, &Rrset::new_from_owned(&recs).unwrap(), inc, exp).unwrap();
            let rrsig = sig.data();
            for ans in answers {
                let mut answer = mx_set(ans, 7, "mX1.eXAMPLE.");
                answer.reverse();
                let mut buf = Vec::new();
                rrsig.signed_data(&mut buf, answer.as_mut_slice()).unwrap();
                if rrsig.verify_signed_data(&key.dnskey(), &buf).is_err() {
                    fail(format!("{:?}: MX RRset signed at {} and answered as {} (exchange in another case) does not verify", params, owner, ans));
                }
            }
        }
    }
    // one scratch buffer for a sequence of calls, not empty at the start, with a failing attempt in between
    for params in [GenerateParams::Ed25519, GenerateParams::EcdsaP256Sha256] {
        let (sec, public) = generate(&params, 256).unwrap();
        let flaky = Flaky { inner: KeyPair::from_bytes(&sec, &public).unwrap(), fail_next: std::cell::Cell::new(false) };
        let key: SigningKey<Vec<u8>, Flaky> = SigningKey::new(n("example."), 256, flaky);
        let (inc, exp) = (Timestamp::from(1_000_000), Timestamp::from(2_000_000));
        let mut scratch: Vec<u8> = b"left over from something else".to_vec();
        let owners = ["a.example.", "b.example.", "*.c.example.", "d.example.", "e.example."];
        for (i, owner) in owners.iter().enumerate() {
            let mut recs = a_set(owner, 3600, 1);
            recs.sort_by(|a, b| domain::base::cmp::CanonicalOrd::canonical_cmp(a, b));
            if i == 3 {
                key.raw_secret_key().fail_next.set(true);
                if sign_sorted_rrset_in(&key, &Rrset::new_from_owned(&recs).unwrap(), inc, exp, &mut scratch).is_ok() {
                    fail(format!("{:?}: sign_sorted_rrset_in returned Ok although the key back end reported an error", params));
                }
                continue;
            }
            let sig = match sign_sorted_rrset_in(&key, &Rrset::new_from_owned(&recs).unwrap(), inc, exp, &mut scratch) {
                Ok(sig) => sig,
                Err(e) => fail(format!("{:?}: sign_sorted_rrset_in fails for {}: {}", params, owner, e)),
            };
            let rrsig = sig.data();
            let mut answer = a_set(owner, 3600, 1);
            let mut buf = Vec::new();
            rrsig.signed_data(&mut buf, answer.as_mut_slice()).unwrap();
            if rrsig.verify_signed_data(&key.dnskey(), &buf).is_err() {
                fail(format!(
                    "{:?}: call {} of sign_sorted_rrset_in with one reused scratch buffer ({}; the buffer held other octets before the first call, the call for d.example. failed in the key back end): the RRSIG does not verify",
                    params, i + 1, owner
                ));
            }
        }
    }
    // DS digests against an independent computation
    for params in [GenerateParams::Ed25519, GenerateParams::EcdsaP256Sha256] {
        for flags in [256u16, 257] {
            let (_sec, public) = generate(&params, flags).unwrap();
            let mut rdata: Vec<u8> = Vec::new();
            public.compose_rdata(&mut rdata).unwrap();
            for owner in ["example.", "Sub.Example.", "a.B.c.EXAMPLE."] {
                let mut data: Vec<u8> = Vec::new();
                for label in owner.trim_end_matches('.').split('.') {
                    data.push(label.len() as u8);
                    data.extend(label.bytes().map(|c| c.to_ascii_lowercase()));
                }
                data.push(0);
                data.extend_from_slice(&rdata);
                for (alg, ring_alg) in [
                    (DigestAlgorithm::SHA1, &ring::digest::SHA1_FOR_LEGACY_USE_ONLY),
                    (DigestAlgorithm::SHA256, &ring::digest::SHA256),
                    (DigestAlgorithm::SHA384, &ring::digest::SHA384),
                ] {
                    let own = ring::digest::digest(ring_alg, &data);
                    match public.digest(&n(owner), alg) {
                        Ok(d) => {
                            if d.as_ref() != own.as_ref() {
                                fail(format!("{:?} key with flags {} at {}: the {} DS digest is {:02x?} (independent computation: {:02x?})",
                                    params, flags, owner, alg, d.as_ref(), own.as_ref()));
                            }
                        }
                        Err(e) => fail(format!("{:?} key at {}: no {} DS digest: {}", params, owner, alg, e)),
                    }
                }
            }
        }
    }
    println!("OK: all signatures carry the right label count and verify exactly when they should");
}
