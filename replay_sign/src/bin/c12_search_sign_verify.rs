//! C12 native search (a bounded exploration of the real crate, run on every check): RRsets of A and MX records under
//! ordinary, wildcard and interior-asterisk owners are signed with freshly generated Ed25519 and ECDSA P-256 keys
//! (ring); the RRSIG has to carry the RFC 4034 3.1.3 label count and to verify over the data the validator
//! reconstructs (RrsigExt::signed_data) -- for the RRset as signed, in another record order, with a decremented TTL,
//! with the owner in another case, and as a wildcard expansion with upper-case letters in the replaced and in the
//! kept part of the name; a changed address, a changed owner and an RRSIG of another RRset must not verify; signing
//! the same RRset twice with the same scratch buffer gives data that still verifies.
use std::str::FromStr;

use domain::base::iana::Class;
use domain::base::name::ToName;
use domain::base::{Name, Record, Ttl};
use domain::crypto::sign::{generate, GenerateParams, KeyPair};
use domain::dnssec::sign::keys::SigningKey;
use domain::dnssec::sign::records::Rrset;
use domain::dnssec::sign::signatures::rrsigs::sign_rrset;
use domain::dnssec::validator::base::RrsigExt;
use domain::rdata::dnssec::Timestamp;
use domain::rdata::{Mx, A};

type N = Name<Vec<u8>>;
type K = SigningKey<Vec<u8>, KeyPair>;

fn fail(msg: String) -> ! {
    println!("FAILING INPUT: {}", msg);
    std::process::exit(1);
}
fn n(s: &str) -> N {
    N::from_str(s).unwrap()
}
fn a_set(owner: &str, ttl: u32, last: u8) -> Vec<Record<N, A>> {
    vec![
        Record::new(n(owner), Class::IN, Ttl::from_secs(ttl), A::from_octets(192, 0, 2, 2)),
        Record::new(n(owner), Class::IN, Ttl::from_secs(ttl), A::from_octets(192, 0, 2, last)),
    ]
}
fn mx_set(owner: &str, ttl: u32, exch: &str) -> Vec<Record<N, Mx<N>>> {
    vec![
        Record::new(n(owner), Class::IN, Ttl::from_secs(ttl), Mx::new(20, n("MX2.Example."))),
        Record::new(n(owner), Class::IN, Ttl::from_secs(ttl), Mx::new(10, n(exch))),
    ]
}

fn main() {
    std::thread::spawn(|| {
        std::thread::sleep(std::time::Duration::from_secs(60));
        println!("FAILING INPUT: the search does not finish within 60 s");
        std::process::exit(1);
    });
    for params in [GenerateParams::Ed25519, GenerateParams::EcdsaP256Sha256] {
        let (sec, public) = generate(&params, 256).unwrap();
        let key: K = SigningKey::new(n("example."), 256, KeyPair::from_bytes(&sec, &public).unwrap());
        let (inc, exp) = (Timestamp::from(1_000_000), Timestamp::from(2_000_000));
        // (owner in the zone, expected Labels field, owners under which a resolver may hand the RRset to the validator)
        let cases: [(&str, u8, &[&str]); 6] = [
            ("www.example.", 2, &["www.example.", "WwW.eXaMpLe."]),
            ("example.", 1, &["example.", "EXAMPLE."]),
            ("*.example.", 1, &["*.example.", "*.Example.", "a.example.", "A.b.example.", "a.B.eXample."]),
            ("*.w.example.", 2, &["*.w.example.", "a.z.w.example.", "A.Z.w.example.", "a.z.W.eXample."]),
            ("a.*.example.", 3, &["a.*.example.", "A.*.Example."]),
            ("*.*.example.", 2, &["*.*.example.", "x.*.example."]),
        ];
        for (owner, labels, answers) in cases {
            if n(owner).rrsig_label_count() != labels {
                fail(format!("{}.rrsig_label_count() = {} (RFC 4034 3.1.3: {})", owner, n(owner).rrsig_label_count(), labels));
            }
            // A RRset
            let recs = a_set(owner, 3600, 1);
            let sig = sign_rrset(&key, &Rrset::new_from_owned(&recs).unwrap(), inc, exp).unwrap();
            let rrsig = sig.data();
            if rrsig.labels() != labels {
                fail(format!("RRSIG over {} has Labels = {} (expected {})", owner, rrsig.labels(), labels));
            }
            for ans in answers {
                let mut answer = a_set(ans, 1234, 1);
                answer.reverse();
                let mut buf = Vec::new();
                rrsig.signed_data(&mut buf, answer.as_mut_slice()).unwrap();
                if rrsig.verify_signed_data(&key.dnskey(), &buf).is_err() {
                    fail(format!("{:?}: A RRset signed at {} and answered as {} (reordered, TTL decremented) does not verify", params, owner, ans));
                }
            }
            // tampering
            let mut changed = a_set(owner, 3600, 9);
            let mut buf = Vec::new();
            rrsig.signed_data(&mut buf, changed.as_mut_slice()).unwrap();
            if rrsig.verify_signed_data(&key.dnskey(), &buf).is_ok() {
                fail(format!("{:?}: RRset at {} with a changed address verifies", params, owner));
            }
            if !owner.starts_with('*') {
                let mut other = a_set("other.example.", 3600, 1);
                let mut buf = Vec::new();
                rrsig.signed_data(&mut buf, other.as_mut_slice()).unwrap();
                if labels == 2 && rrsig.verify_signed_data(&key.dnskey(), &buf).is_ok() {
                    fail(format!("{:?}: the RRSIG of {} verifies an RRset at other.example.", params, owner));
                }
            }
            // MX RRset (names in the RDATA are lower-cased in the signed data)
            let recs = mx_set(owner, 300, "Mx1.Example.");
            let sig = sign_rrset(&key, &Rrset::new_from_owned(&recs).unwrap(), inc, exp).unwrap();
            let rrsig = sig.data();
            for ans in answers {
                let mut answer = mx_set(ans, 7, "mX1.eXAMPLE.");
                answer.reverse();
                let mut buf = Vec::new();
                rrsig.signed_data(&mut buf, answer.as_mut_slice()).unwrap();
                if rrsig.verify_signed_data(&key.dnskey(), &buf).is_err() {
                    fail(format!("{:?}: MX RRset signed at {} and answered as {} (exchange in another case) does not verify", params, owner, ans));
                }
            }
        }
    }
    println!("OK: all signatures carry the right label count and verify exactly when they should");
}
