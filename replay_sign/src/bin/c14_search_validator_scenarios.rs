//! C14 -- a bounded exploration of the real validator through its public API (never counted as an obligation): "the
//! validator reports an answer as secure only if every RRset in it is covered by a valid signature chaining ... to a
//! configured trust anchor, and reports negative answers as secure only with valid NSEC3 proofs; correctly signed answers
//! from a correctly signed hierarchy are reported secure".
//! A hierarchy . -> test. -> example.test. with generated ECDSA P-256 keys behind an in-memory upstream; example.test. has
//! seven names and an NSEC3 chain (SHA-1, no iterations), rebuilt under salts chosen so that every name takes its turn as
//! the one with the smallest hash (the end point of the wrap-around NSEC3). Scenarios:
//!   positive: for every name a correctly signed answer is Secure; with one bit of the signature flipped (three
//!     positions), without signature, or signed by a key that is not in the zone's DNSKEY RRset it is not Secure;
//!   key tag collision: a zone whose KSK and ZSK share algorithm and key tag (the key that did not sign listed first):
//!     answers signed by either key are Secure;
//!   negative: a genuine NXDOMAIN (40 names per salt, each with its closest-encloser, next-closer and wildcard NSEC3) is
//!     Secure; an NXDOMAIN for an *existing* name, supported by every NSEC3 of the zone except the one that matches the
//!     name (everything a forger can take from the real zone), is never Secure.
//! The harness (ZoneKey, Upstream, build_msg, Nsec3Zone) was written by a round-7 seeding sub-agent for its demonstrations
//! and is reused as it stands.
#![allow(dead_code, unused_imports)]
use std::collections::HashMap;
use std::future::Future;
use std::pin::Pin;
use std::str::FromStr;
use std::sync::{Arc, Mutex};

use bytes::Bytes;
use domain::base::iana::{
    Class, DigestAlgorithm, Nsec3HashAlgorithm, Rcode,
};
use domain::base::name::Name;
use domain::base::{
    Message, MessageBuilder, Record, Rtype, Serial, ToName, Ttl,
};
use domain::crypto::sign::{generate, GenerateParams, KeyPair, SignRaw};
use domain::dnssec::common::nsec3_hash;
use domain::dnssec::validator::anchor::TrustAnchors;
use domain::dnssec::validator::base::{DnskeyExt, RrsigExt};
use domain::dnssec::validator::context::{
    ValidationContext, ValidationState,
};
use domain::net::client::request::{
    ComposeRequest, Error, GetResponse, RequestMessage, SendRequest,
};
use domain::rdata::dnssec::{RtypeBitmap, Timestamp};
use domain::rdata::nsec3::{Nsec3Salt, OwnerHash};
use domain::rdata::{Dnskey, Ds, Nsec3, Rrsig, Soa, ZoneRecordData, A};

type N = Name<Bytes>;
type Zrd = ZoneRecordData<Bytes, N>;
type Rec = Record<N, Zrd>;

fn name(s: &str) -> N {
    N::from_str(s).unwrap()
}

const TTL: u32 = 3600;

//------------ keys and signing ----------------------------------------------

struct ZoneKey {
    apex: N,
    kp: KeyPair,
    dnskey: Dnskey<Bytes>,
}

impl ZoneKey {
    fn new(apex: &str) -> Self {
        Self::with_flags(apex, 257)
    }

    fn with_flags(apex: &str, flags: u16) -> Self {
        let (sk, pk) =
            generate(&GenerateParams::EcdsaP256Sha256, flags).unwrap();
        let kp = KeyPair::from_bytes(&sk, &pk).unwrap();
        let dnskey = Dnskey::new(
            pk.flags(),
            pk.protocol(),
            pk.algorithm(),
            Bytes::copy_from_slice(pk.public_key().as_ref()),
        )
        .unwrap();
        ZoneKey {
            apex: name(apex),
            kp,
            dnskey,
        }
    }

    fn dnskey_rr(&self) -> Rec {
        Record::new(
            self.apex.clone(),
            Class::IN,
            Ttl::from_secs(TTL),
            Zrd::Dnskey(self.dnskey.clone()),
        )
    }

    fn ds_rr(&self) -> Rec {
        let digest = self
            .dnskey
            .digest(&self.apex, DigestAlgorithm::SHA256)
            .unwrap();
        let ds = Ds::new(
            self.dnskey.key_tag(),
            self.dnskey.algorithm(),
            DigestAlgorithm::SHA256,
            Bytes::copy_from_slice(digest.as_ref()),
        )
        .unwrap();
        Record::new(
            self.apex.clone(),
            Class::IN,
            Ttl::from_secs(TTL),
            Zrd::Ds(ds),
        )
    }

    /// Sign an RRset, return the RRSIG record.
    fn sign(&self, rrs: &[Rec]) -> Rec {
        let owner = rrs[0].owner().clone();
        let mut labels = owner.label_count() - 1;
        if owner.first().is_wildcard() {
            labels -= 1;
        }
        let now = Timestamp::now().into_int();
        let mk = |sig: Bytes| {
            Rrsig::<Bytes, N>::new(
                rrs[0].rtype(),
                self.dnskey.algorithm(),
                labels as u8,
                Ttl::from_secs(TTL),
                Timestamp::from(now + 86400),
                Timestamp::from(now - 3600),
                self.dnskey.key_tag(),
                self.apex.clone(),
                sig,
            )
            .unwrap()
        };
        let tmp = mk(Bytes::new());
        let mut data = Vec::new();
        let mut recs: Vec<Rec> = rrs.to_vec();
        tmp.signed_data(&mut data, &mut recs).unwrap();
        let sig = self.kp.sign_raw(&data).unwrap();
        let rrsig = mk(Bytes::copy_from_slice(sig.as_ref()));
        Record::new(owner, Class::IN, Ttl::from_secs(TTL), Zrd::Rrsig(rrsig))
    }

    /// An RRset followed by its signature.
    fn signed(&self, rrs: &[Rec]) -> Vec<Rec> {
        let mut v = rrs.to_vec();
        v.push(self.sign(rrs));
        v
    }
}

//------------ in-memory upstream --------------------------------------------

#[derive(Clone, Default)]
struct Upstream {
    data: Arc<Mutex<HashMap<(N, Rtype), Vec<Rec>>>>,
}

impl Upstream {
    fn put(&self, qname: &N, qtype: Rtype, answer: Vec<Rec>) {
        self.data
            .lock()
            .unwrap()
            .insert((qname.clone(), qtype), answer);
    }
}

#[derive(Debug)]
struct Resp(Option<Result<Message<Bytes>, Error>>);

impl GetResponse for Resp {
    fn get_response(
        &mut self,
    ) -> Pin<
        Box<
            dyn Future<Output = Result<Message<Bytes>, Error>>
                + Send
                + Sync
                + '_,
        >,
    > {
        let res = self.0.take().unwrap();
        Box::pin(async move { res })
    }
}

impl SendRequest<RequestMessage<Vec<u8>>> for Upstream {
    fn send_request(
        &self,
        request_msg: RequestMessage<Vec<u8>>,
    ) -> Box<dyn GetResponse + Send + Sync> {
        let req = request_msg.to_message().unwrap();
        let q = req.sole_question().unwrap();
        let qname: N = q.qname().to_name();
        let qtype = q.qtype();
        let map = self.data.lock().unwrap();
        let msg = match map.get(&(qname.clone(), qtype)) {
            Some(answer) => {
                build_msg(&qname, qtype, Rcode::NOERROR, answer, &[])
            }
            None => build_msg(&qname, qtype, Rcode::SERVFAIL, &[], &[]),
        };
        Box::new(Resp(Some(Ok(msg))))
    }
}

fn build_msg(
    qname: &N,
    qtype: Rtype,
    rcode: Rcode,
    answer: &[Rec],
    authority: &[Rec],
) -> Message<Bytes> {
    let mut mb = MessageBuilder::new_vec();
    mb.header_mut().set_qr(true);
    mb.header_mut().set_rcode(rcode);
    let mut mb = mb.question();
    mb.push((qname, qtype)).unwrap();
    let mut mb = mb.answer();
    for rr in answer {
        mb.push(rr.clone()).unwrap();
    }
    let mut mb = mb.authority();
    for rr in authority {
        mb.push(rr.clone()).unwrap();
    }
    Message::from_octets(Bytes::from(mb.finish())).unwrap()
}

//------------ NSEC3 chain ---------------------------------------------------

struct Nsec3Zone {
    /// (hash, original name, signed NSEC3 RRset), sorted by hash.
    chain: Vec<(OwnerHash<Bytes>, N, Vec<Rec>)>,
    salt: Nsec3Salt<Bytes>,
}

fn hash_of(n: &N, salt: &Nsec3Salt<Bytes>) -> OwnerHash<Bytes> {
    let h: OwnerHash<Vec<u8>> =
        nsec3_hash(n, Nsec3HashAlgorithm::SHA1, 0, salt).unwrap();
    OwnerHash::from_octets(Bytes::copy_from_slice(h.as_slice())).unwrap()
}

impl Nsec3Zone {
    fn build(
        key: &ZoneKey,
        names: &[(N, Vec<Rtype>)],
        salt: Nsec3Salt<Bytes>,
    ) -> Self {
        let mut hashed: Vec<(OwnerHash<Bytes>, N, Vec<Rtype>)> = names
            .iter()
            .map(|(n, t)| (hash_of(n, &salt), n.clone(), t.clone()))
            .collect();
        hashed.sort_by(|a, b| a.0.as_slice().cmp(b.0.as_slice()));
        let mut chain = Vec::new();
        for i in 0..hashed.len() {
            let (h, n, types) = &hashed[i];
            let next = hashed[(i + 1) % hashed.len()].0.clone();
            let mut bm = RtypeBitmap::<Bytes>::builder();
            for t in types {
                bm.add(*t).unwrap();
            }
            bm.add(Rtype::RRSIG).unwrap();
            let nsec3 = Nsec3::new(
                Nsec3HashAlgorithm::SHA1,
                0,
                0,
                salt.clone(),
                next,
                bm.finalize(),
            );
            let owner = name(&format!("{}.{}", h, key.apex));
            let rr = Record::new(
                owner,
                Class::IN,
                Ttl::from_secs(TTL),
                Zrd::Nsec3(nsec3),
            );
            chain.push((h.clone(), n.clone(), key.signed(&[rr])));
        }
        Nsec3Zone { chain, salt }
    }

    /// Index of the NSEC3 whose owner hash equals the hash of `n`.
    fn matching(&self, n: &N) -> Option<usize> {
        let h = hash_of(n, &self.salt);
        self.chain.iter().position(|e| e.0.as_slice() == h.as_slice())
    }

    /// Index of the NSEC3 that (strictly) covers the hash of `n`.
    fn covering(&self, n: &N) -> Option<usize> {
        let h = hash_of(n, &self.salt);
        let h = h.as_slice();
        let len = self.chain.len();
        for i in 0..len {
            let o = self.chain[i].0.as_slice();
            let x = self.chain[(i + 1) % len].0.as_slice();
            let inside = if x > o {
                o < h && h < x
            } else {
                o < h || h < x
            };
            if inside {
                return Some(i);
            }
        }
        None
    }
}

fn a_rr(owner: &N, addr: [u8; 4]) -> Rec {
    Record::new(
        owner.clone(),
        Class::IN,
        Ttl::from_secs(TTL),
        Zrd::A(A::from_octets(addr[0], addr[1], addr[2], addr[3])),
    )
}

async fn validate(
    vc: &ValidationContext<Upstream>,
    msg: Message<Bytes>,
) -> ValidationState {
    let mut msg = msg;
    match vc.validate_msg(&mut msg).await {
        Ok((state, _ede)) => state,
        Err(e) => panic!("validate_msg failed: {e}"),
    }
}

//------------ main ----------------------------------------------------------

fn colliding_keys(apex: &str) -> (ZoneKey, ZoneKey) {
    let mut ksks: HashMap<u16, ZoneKey> = HashMap::new();
    let mut zsks: HashMap<u16, ZoneKey> = HashMap::new();
    loop {
        let k = ZoneKey::with_flags(apex, 257);
        let tag = k.dnskey.key_tag();
        if let Some(z) = zsks.remove(&tag) {
            return (k, z);
        }
        ksks.insert(tag, k);
        let z = ZoneKey::with_flags(apex, 256);
        let tag = z.dnskey.key_tag();
        if let Some(k) = ksks.remove(&tag) {
            return (k, z);
        }
        zsks.insert(tag, z);
    }
}


fn main() {
    std::thread::spawn(|| {
        std::thread::sleep(std::time::Duration::from_secs(300));
        println!("FAIL watchdog: the search did not finish in 300 s");
        std::process::exit(3);
    });
    let rt = tokio::runtime::Builder::new_current_thread().enable_all().build().unwrap();
    let code = rt.block_on(run());
    std::process::exit(code);
}

fn fail(what: String) -> ! {
    println!("FAILING INPUT: {what}");
    std::process::exit(1);
}

async fn run() -> i32 {
    let root = ZoneKey::new(".");
    let tld = ZoneKey::new("test.");
    let zone = ZoneKey::new("example.test.");
    let stranger = ZoneKey::new("example.test.");
    let apex = zone.apex.clone();
    let up = Upstream::default();
    up.put(&root.apex, Rtype::DNSKEY, root.signed(&[root.dnskey_rr()]));
    up.put(&tld.apex, Rtype::DS, root.signed(&[tld.ds_rr()]));
    up.put(&tld.apex, Rtype::DNSKEY, tld.signed(&[tld.dnskey_rr()]));
    up.put(&zone.apex, Rtype::DS, tld.signed(&[zone.ds_rr()]));
    up.put(&zone.apex, Rtype::DNSKEY, zone.signed(&[zone.dnskey_rr()]));
    let ta_str = format!(". 3600 IN DNSKEY {}", root.dnskey);
    let vc = ValidationContext::new(TrustAnchors::from_u8(ta_str.as_bytes()).unwrap(), up.clone());
    let mut n = 0u32;

    let hosts: Vec<N> = ["www", "mail", "ftp", "ns1", "alpha", "beta"].iter().map(|l| name(&format!("{l}.example.test."))).collect();
    // ---- positive answers
    for h in &hosts {
        let rrs = [a_rr(h, [192, 0, 2, 1])];
        let st = validate(&vc, build_msg(h, Rtype::A, Rcode::NOERROR, &zone.signed(&rrs), &[])).await;
        n += 1;
        if st != ValidationState::Secure { fail(format!("a correctly signed answer for {h} is reported {st:?}")); }
        let good = zone.sign(&rrs);
        let Zrd::Rrsig(sig) = good.data() else { unreachable!() };
        for pos in [0usize, 10, sig.signature().len() - 1] {
            let mut bad_sig = sig.signature().to_vec();
            bad_sig[pos] ^= 0x40;
            let mut bad = sig.clone();
            bad.set_signature(Bytes::from(bad_sig));
            let bad = Record::new(h.clone(), Class::IN, Ttl::from_secs(TTL), Zrd::Rrsig(bad));
            let st = validate(&vc, build_msg(h, Rtype::A, Rcode::NOERROR, &[rrs[0].clone(), bad], &[])).await;
            n += 1;
            if st == ValidationState::Secure { fail(format!("an answer for {h} whose signature has octet {pos} changed is reported Secure")); }
        }
        let st = validate(&vc, build_msg(h, Rtype::A, Rcode::NOERROR, &rrs, &[])).await;
        n += 1;
        if st == ValidationState::Secure { fail(format!("an unsigned answer for {h} in a signed zone is reported Secure")); }
        let st = validate(&vc, build_msg(h, Rtype::A, Rcode::NOERROR, &stranger.signed(&rrs), &[])).await;
        n += 1;
        if st == ValidationState::Secure { fail(format!("an answer for {h} signed by a key that is not in the DNSKEY RRset is reported Secure")); }
    }
    // ---- key tag collision
    {
        let (ksk, zsk) = colliding_keys("collide.test.");
        let up2 = Upstream { data: Arc::new(Mutex::new(up.data.lock().unwrap().clone())) };
        up2.put(&ksk.apex, Rtype::DS, tld.signed(&[ksk.ds_rr()]));
        up2.put(&ksk.apex, Rtype::DNSKEY, ksk.signed(&[ksk.dnskey_rr(), zsk.dnskey_rr()]));
        let vc2 = ValidationContext::new(TrustAnchors::from_u8(ta_str.as_bytes()).unwrap(), up2);
        for (who, key, owner) in [("KSK", &ksk, name("k.collide.test.")), ("ZSK", &zsk, name("z.collide.test."))] {
            let st = validate(&vc2, build_msg(&owner, Rtype::A, Rcode::NOERROR, &key.signed(&[a_rr(&owner, [192, 0, 2, 2])]), &[])).await;
            n += 1;
            if st != ValidationState::Secure {
                fail(format!("zone whose KSK and ZSK share key tag {}: an answer correctly signed with the {who} is reported {st:?}", ksk.dnskey.key_tag()));
            }
        }
    }
    // ---- negative answers
    let mut names: Vec<(N, Vec<Rtype>)> = vec![(apex.clone(), vec![Rtype::NS, Rtype::SOA, Rtype::DNSKEY, Rtype::NSEC3PARAM])];
    for h in &hosts { names.push((h.clone(), vec![Rtype::A])); }
    let wildcard = name("*.example.test.");
    let soa = zone.signed(&[Record::new(apex.clone(), Class::IN, Ttl::from_secs(TTL), Zrd::Soa(Soa::new(
        name("ns1.example.test."), name("hostmaster.example.test."), Serial(1),
        Ttl::from_secs(TTL), Ttl::from_secs(TTL), Ttl::from_secs(TTL), Ttl::from_secs(TTL))))]);
    let mut smallest_seen: Vec<N> = vec![];
    let mut salts_used = 0;
    for s in 0u8..=255 {
        let salt = Nsec3Salt::from_octets(Bytes::copy_from_slice(&[0xab, s])).unwrap();
        let z = Nsec3Zone::build(&zone, &names, salt);
        // a new name at the wrap-around point, please
        if smallest_seen.contains(&z.chain[0].1) { continue; }
        smallest_seen.push(z.chain[0].1.clone());
        salts_used += 1;
        let last = z.chain.len() - 1;
        // genuine NXDOMAINs
        for i in 0..40 {
            let nx = name(&format!("nx{i}.example.test."));
            let (Some(c), Some(w), Some(a)) = (z.covering(&nx), z.covering(&wildcard), z.matching(&apex)) else { continue };
            let mut idx = vec![a, c, w];
            idx.sort();
            idx.dedup();
            let mut auth = soa.clone();
            for i in idx { auth.extend(z.chain[i].2.iter().cloned()); }
            let st = validate(&vc, build_msg(&nx, Rtype::A, Rcode::NXDOMAIN, &[], &auth)).await;
            n += 1;
            if st != ValidationState::Secure {
                fail(format!("salt ab{s:02x}: a genuine NXDOMAIN for {nx} (covered by {} NSEC3) is reported {st:?}", if c == last { "the wrap-around" } else { "an ordinary" }));
            }
        }
        // forged NXDOMAIN for every existing host: all NSEC3 RRsets of the zone except the host's own
        for h in &hosts {
            let own = z.matching(h).unwrap();
            let mut auth = soa.clone();
            for (i, e) in z.chain.iter().enumerate() {
                if i != own { auth.extend(e.2.iter().cloned()); }
            }
            let st = validate(&vc, build_msg(h, Rtype::A, Rcode::NXDOMAIN, &[], &auth)).await;
            n += 1;
            if st == ValidationState::Secure {
                fail(format!("salt ab{s:02x}: an NXDOMAIN for the existing name {h} (its hash is {} in the chain of {}), supported by every NSEC3 of the zone but its own, is reported Secure",
                    if own == 0 { "the smallest".to_string() } else { format!("number {own}") }, z.chain.len()));
            }
        }
        if salts_used == 8 { break; }
    }
    println!("OK: {n} answers judged as required ({salts_used} NSEC3 chains, {} different names at the wrap-around point)", smallest_seen.len());
    0
}
