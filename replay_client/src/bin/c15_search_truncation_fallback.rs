//! C15, truncation fallback -- a bounded exploration of the real crate (never counted as an obligation): "a truncated
//! datagram answer is retried over a stream when one is available". The combined transport dgram_stream is driven
//! against an in-memory datagram peer and an in-memory stream server (behind multi_stream). For every one of the 16
//! header RCODE values and four ways the truncated datagram answer can arrive (at once; after an unrelated reply with
//! another ID; on the retry after a lost first transmission; with a partial answer section) the caller must get the
//! stream's complete answer (TC clear), served by exactly one stream request; and for a datagram answer that is not
//! truncated the stream must not be contacted at all.
//! The in-memory network and stream server were written by a round-7 seeding sub-agent for its demonstration and are
//! reused as they stand.
use domain::base::iana::Rcode;
use domain::base::{Message, MessageBuilder, Name, Rtype};
use domain::net::client::protocol::{
    AsyncConnect, AsyncDgramRecv, AsyncDgramSend,
};
use domain::net::client::request::{RequestMessage, SendRequest};
use domain::net::client::{dgram, dgram_stream, multi_stream};
use domain::rdata::A;
use std::collections::VecDeque;
use std::future::{ready, Ready};
use std::io;
use std::str::FromStr;
use std::sync::atomic::{AtomicUsize, Ordering};
use std::sync::{Arc, Mutex};
use std::task::{Context, Poll, Waker};
use std::time::Duration;
use tokio::io::{AsyncReadExt, AsyncWriteExt, DuplexStream, ReadBuf};
use tokio::sync::mpsc;

//------------ in-memory datagram socket -------------------------------------

#[derive(Default)]
struct Inbox {
    queue: VecDeque<Vec<u8>>,
    waker: Option<Waker>,
}

#[derive(Clone, Default)]
struct InboxRef(Arc<Mutex<Inbox>>);

impl InboxRef {
    fn deliver(&self, dgram: Vec<u8>) {
        let mut inbox = self.0.lock().unwrap();
        inbox.queue.push_back(dgram);
        if let Some(waker) = inbox.waker.take() {
            waker.wake()
        }
    }
}

type Sent = (Vec<u8>, InboxRef);

struct MockSock {
    inbox: InboxRef,
    wire: mpsc::UnboundedSender<Sent>,
}

impl AsyncDgramRecv for MockSock {
    fn poll_recv(
        &self,
        cx: &mut Context<'_>,
        buf: &mut ReadBuf<'_>,
    ) -> Poll<Result<(), io::Error>> {
        let mut inbox = self.inbox.0.lock().unwrap();
        match inbox.queue.pop_front() {
            Some(dgram) => {
                let len = dgram.len().min(buf.remaining());
                buf.put_slice(&dgram[..len]);
                Poll::Ready(Ok(()))
            }
            None => {
                inbox.waker = Some(cx.waker().clone());
                Poll::Pending
            }
        }
    }
}

impl AsyncDgramSend for MockSock {
    fn poll_send(
        &self,
        _: &mut Context<'_>,
        buf: &[u8],
    ) -> Poll<Result<usize, io::Error>> {
        let _ = self.wire.send((buf.to_vec(), self.inbox.clone()));
        Poll::Ready(Ok(buf.len()))
    }
}

#[derive(Clone, Debug)]
struct MockDgramConnect {
    wire: mpsc::UnboundedSender<Sent>,
}

impl AsyncConnect for MockDgramConnect {
    type Connection = MockSock;
    type Fut = Ready<Result<MockSock, io::Error>>;

    fn connect(&self) -> Self::Fut {
        ready(Ok(MockSock {
            inbox: Default::default(),
            wire: self.wire.clone(),
        }))
    }
}

//------------ in-memory stream server ---------------------------------------

/// Every connect spawns a little server that answers each query in full.
#[derive(Clone, Debug)]
struct MockStreamConnect {
    rcode: Rcode,
    served: Arc<AtomicUsize>,
}

impl AsyncConnect for MockStreamConnect {
    type Connection = DuplexStream;
    type Fut = Ready<Result<DuplexStream, io::Error>>;

    fn connect(&self) -> Self::Fut {
        let (client, mut server) = tokio::io::duplex(4096);
        let rcode = self.rcode;
        let served = self.served.clone();
        tokio::spawn(async move {
            loop {
                let len = match server.read_u16().await {
                    Ok(len) => len as usize,
                    Err(_) => return,
                };
                let mut buf = vec![0u8; len];
                if server.read_exact(&mut buf).await.is_err() {
                    return;
                }
                served.fetch_add(1, Ordering::SeqCst);
                let resp = full_answer(&buf, rcode);
                let _ = server.write_u16(resp.len() as u16).await;
                let _ = server.write_all(&resp).await;
                let _ = server.flush().await;
            }
        });
        ready(Ok(client))
    }
}

//------------ helpers --------------------------------------------------------

fn query(name: &str) -> RequestMessage<Vec<u8>> {
    let mut msg = MessageBuilder::new_vec();
    msg.header_mut().set_rd(true);
    let mut msg = msg.question();
    msg.push((Name::<Vec<u8>>::from_str(name).unwrap(), Rtype::A))
        .unwrap();
    RequestMessage::new(msg.into_message()).unwrap()
}

/// The datagram answer: question only, TC set.
fn truncated_answer(req: &[u8], rcode: Rcode) -> Vec<u8> {
    let req = Message::from_octets(req.to_vec()).unwrap();
    let mut resp = MessageBuilder::new_vec()
        .start_answer(&req, rcode)
        .unwrap();
    resp.header_mut().set_tc(true);
    resp.into_message().into_octets()
}

/// The stream answer: complete, with a record in the authority section.
fn full_answer(req: &[u8], rcode: Rcode) -> Vec<u8> {
    let req = Message::from_octets(req.to_vec()).unwrap();
    let mut resp = MessageBuilder::new_vec()
        .start_answer(&req, rcode)
        .unwrap()
        .authority();
    resp.push((
        Name::<Vec<u8>>::from_str("proof.example.com").unwrap(),
        300,
        A::from_octets(192, 0, 2, 1),
    ))
    .unwrap();
    resp.into_message().into_octets()
}

//------------ scenarios ------------------------------------------------------

#[derive(Clone, Copy, Debug, PartialEq)]
enum How { AtOnce, AfterStray, OnRetry, PartialAnswer, NotTruncated }

fn stray(req: &[u8]) -> Vec<u8> {
    let reqm = Message::from_octets(req.to_vec()).unwrap();
    let mut resp = MessageBuilder::new_vec().start_answer(&reqm, Rcode::NOERROR).unwrap();
    resp.header_mut().set_id(reqm.header().id() ^ 0x5555);
    resp.into_message().into_octets()
}
fn partial_truncated(req: &[u8], rcode: Rcode) -> Vec<u8> {
    let reqm = Message::from_octets(req.to_vec()).unwrap();
    let mut resp = MessageBuilder::new_vec().start_answer(&reqm, rcode).unwrap();
    resp.push((Name::<Vec<u8>>::from_str("nonexistent.example.com").unwrap(), 300, A::from_octets(192, 0, 2, 9))).unwrap();
    resp.header_mut().set_tc(true);
    resp.into_message().into_octets()
}
fn untruncated(req: &[u8], rcode: Rcode) -> Vec<u8> {
    let reqm = Message::from_octets(req.to_vec()).unwrap();
    MessageBuilder::new_vec().start_answer(&reqm, rcode).unwrap().into_message().into_octets()
}

async fn scenario(rcode: Rcode, how: How) -> Result<(), String> {
    let (wire, mut peer) = mpsc::unbounded_channel::<Sent>();
    tokio::spawn(async move {
        let mut count = 0;
        while let Some((dgram, inbox)) = peer.recv().await {
            count += 1;
            match how {
                How::AtOnce => inbox.deliver(truncated_answer(&dgram, rcode)),
                How::AfterStray => { inbox.deliver(stray(&dgram)); inbox.deliver(truncated_answer(&dgram, rcode)); }
                How::OnRetry => if count == 2 { inbox.deliver(truncated_answer(&dgram, rcode)) },
                How::PartialAnswer => inbox.deliver(partial_truncated(&dgram, rcode)),
                How::NotTruncated => inbox.deliver(untruncated(&dgram, rcode)),
            }
        }
    });
    let served = Arc::new(AtomicUsize::new(0));
    let mut dgram_config = dgram::Config::new();
    dgram_config.set_read_timeout(Duration::from_millis(300));
    dgram_config.set_max_retries(1);
    let (conn, transport) = dgram_stream::Connection::with_config(
        MockDgramConnect { wire },
        MockStreamConnect { rcode, served: served.clone() },
        dgram_stream::Config::from_parts(dgram_config, multi_stream::Config::default()),
    );
    tokio::spawn(transport.run());
    let res = tokio::time::timeout(Duration::from_secs(20), conn.send_request(query("nonexistent.example.com")).get_response()).await
        .map_err(|_| format!("rcode {rcode}, {how:?}: the request does not complete"))?;
    let served = served.load(Ordering::SeqCst);
    match res {
        Err(err) => Err(format!("rcode {rcode}, {how:?}: the request failed ({err}) although both peers answer")),
        Ok(msg) if how == How::NotTruncated => {
            if served != 0 || msg.header().tc() {
                return Err(format!("rcode {rcode}: a datagram answer that is not truncated led to {served} stream requests"));
            }
            Ok(())
        }
        Ok(msg) if msg.header().tc() => Err(format!(
            "rcode {rcode}, {how:?}: the caller was handed the truncated datagram answer (TC=1); the stream transport was available and served {served} requests")),
        Ok(msg) => {
            if served != 1 || msg.header_counts().nscount() != 1 {
                return Err(format!("rcode {rcode}, {how:?}: {served} stream requests, {} authority records in the answer handed out", msg.header_counts().nscount()));
            }
            Ok(())
        }
    }
}

#[tokio::main(flavor = "current_thread")]
async fn main() {
    let mut n = 0;
    for code in 0u8..16 {
        for how in [How::AtOnce, How::AfterStray, How::OnRetry, How::PartialAnswer, How::NotTruncated] {
            n += 1;
            if let Err(e) = scenario(Rcode::masked_from_int(code), how).await {
                println!("FAILING INPUT: datagram answer with RCODE {code}, {how:?}");
                println!("FAIL: {e}");
                std::process::exit(1);
            }
        }
    }
    println!("OK: {n} scenarios: every truncated datagram answer was retried over the stream, no other one was");
}
