//! C15, the datagram transport -- a bounded exploration of the real crate under tokio's virtual clock (never counted as an
//! obligation): "every response handed to a caller answers that caller's own request (same ID and same question; a
//! header-only error reply needs only the ID), whatever the peer or network does ...; every request completes exactly
//! once, with a response or with an error inside the configured timeout and retry budget".
//! The peer is scripted: for each of the (1 + max_retries) = 2 transmissions it performs up to two actions out of
//!   stray reply with another ID | reply with the right ID and another question | header-only NOERROR reply with the right
//!   ID | header-only SERVFAIL reply with the right ID | two octets of garbage | the query echoed back (QR clear) | the good answer
//! each at 10 %, 50 % or 99.9 % of the read timeout after the transmission -- 53 824 scripts. For every script:
//! the request completes, inside (1 + max_retries) x read_timeout; with at most 1 + max_retries transmissions; a response
//! handed out has the request's ID and either repeats its question or is a header-only error reply; if the script
//! contains a good answer (or a header-only error reply) inside the window of a transmission that is reached, the
//! request succeeds; if it contains none, the request fails.
//! The in-memory datagram network (Inbox, MockSock, MockConnect) was written by a round-7 seeding sub-agent for its
//! demonstration and is reused as it stands.
use domain::base::iana::Rcode;
use domain::base::{Message, MessageBuilder, Name, Rtype};
use domain::net::client::dgram;
use domain::net::client::protocol::{
    AsyncConnect, AsyncDgramRecv, AsyncDgramSend,
};
use domain::net::client::request::{RequestMessage, SendRequest};
use std::collections::VecDeque;
use std::future::{ready, Ready};
use std::io;
use std::str::FromStr;
use std::sync::{Arc, Mutex};
use std::task::{Context, Poll, Waker};
use std::time::Duration;
use tokio::io::ReadBuf;
use tokio::sync::mpsc;
use tokio::time::Instant;

//------------ in-memory datagram socket -------------------------------------

#[derive(Default)]
struct Inbox {
    queue: VecDeque<Vec<u8>>,
    waker: Option<Waker>,
}

#[derive(Clone, Default)]
struct InboxRef(Arc<Mutex<Inbox>>);

impl InboxRef {
    fn deliver(&self, dgram: Vec<u8>) {
        let mut inbox = self.0.lock().unwrap();
        inbox.queue.push_back(dgram);
        if let Some(waker) = inbox.waker.take() {
            waker.wake()
        }
    }
}

/// What the peer gets to see: the datagram and where to send replies.
type Sent = (Vec<u8>, InboxRef);

struct MockSock {
    inbox: InboxRef,
    wire: mpsc::UnboundedSender<Sent>,
}

impl AsyncDgramRecv for MockSock {
    fn poll_recv(
        &self,
        cx: &mut Context<'_>,
        buf: &mut ReadBuf<'_>,
    ) -> Poll<Result<(), io::Error>> {
        let mut inbox = self.inbox.0.lock().unwrap();
        match inbox.queue.pop_front() {
            Some(dgram) => {
                let len = dgram.len().min(buf.remaining());
                buf.put_slice(&dgram[..len]);
                Poll::Ready(Ok(()))
            }
            None => {
                inbox.waker = Some(cx.waker().clone());
                Poll::Pending
            }
        }
    }
}

impl AsyncDgramSend for MockSock {
    fn poll_send(
        &self,
        _: &mut Context<'_>,
        buf: &[u8],
    ) -> Poll<Result<usize, io::Error>> {
        let _ = self.wire.send((buf.to_vec(), self.inbox.clone()));
        Poll::Ready(Ok(buf.len()))
    }
}

#[derive(Clone)]
struct MockConnect {
    wire: mpsc::UnboundedSender<Sent>,
}

impl AsyncConnect for MockConnect {
    type Connection = MockSock;
    type Fut = Ready<Result<MockSock, io::Error>>;

    fn connect(&self) -> Self::Fut {
        ready(Ok(MockSock {
            inbox: Default::default(),
            wire: self.wire.clone(),
        }))
    }
}

//------------ helpers --------------------------------------------------------

fn query(name: &str) -> RequestMessage<Vec<u8>> {
    let mut msg = MessageBuilder::new_vec();
    msg.header_mut().set_rd(true);
    let mut msg = msg.question();
    msg.push((Name::<Vec<u8>>::from_str(name).unwrap(), Rtype::A))
        .unwrap();
    RequestMessage::new(msg.into_message()).unwrap()
}

/// A well-formed response that answers `req` but carries a different ID,
/// i.e., somebody else's answer that strayed onto our socket.
fn stray_answer(req: &[u8]) -> Vec<u8> {
    let req = Message::from_octets(req.to_vec()).unwrap();
    let mut resp = MessageBuilder::new_vec()
        .start_answer(&req, Rcode::NOERROR)
        .unwrap();
    resp.header_mut().set_id(req.header().id() ^ 0x5555);
    resp.into_message().into_octets()
}

/// The correct answer.
fn good_answer(req: &[u8]) -> Vec<u8> {
    let req = Message::from_octets(req.to_vec()).unwrap();
    MessageBuilder::new_vec()
        .start_answer(&req, Rcode::NOERROR)
        .unwrap()
        .into_message()
        .into_octets()
}

const READ_TIMEOUT: Duration = Duration::from_secs(2);
const MAX_RETRIES: u8 = 1;

fn transport(
    wire: mpsc::UnboundedSender<Sent>,
) -> dgram::Connection<MockConnect> {
    let mut config = dgram::Config::new();
    config.set_read_timeout(READ_TIMEOUT);
    config.set_max_retries(MAX_RETRIES);
    dgram::Connection::with_config(MockConnect { wire }, config)
}

//------------ scripted peer ---------------------------------------------------

#[derive(Clone, Copy, Debug, PartialEq, Eq)]
enum Act { Stray, WrongQuestion, BareNoError, BareServfail, Garbage, Echo, Good }
const ACTS: [Act; 7] = [Act::Stray, Act::WrongQuestion, Act::BareNoError, Act::BareServfail, Act::Garbage, Act::Echo, Act::Good];
/// offsets into the read window, in milliseconds (read timeout 2000 ms)
const WHEN: [u64; 3] = [200, 1000, 1998];
type Step = (Act, u64);

fn reply(act: Act, req: &[u8]) -> Vec<u8> {
    let reqm = Message::from_octets(req.to_vec()).unwrap();
    match act {
        Act::Stray => stray_answer(req),
        Act::Good => good_answer(req),
        Act::Garbage => vec![0xde, 0xad],
        Act::Echo => req.to_vec(),
        Act::WrongQuestion => {
            let mut q = MessageBuilder::new_vec();
            q.header_mut().set_id(reqm.header().id());
            q.header_mut().set_qr(true);
            let mut q = q.question();
            q.push((Name::<Vec<u8>>::from_str("other.example").unwrap(), Rtype::A)).unwrap();
            q.into_message().into_octets()
        }
        Act::BareNoError | Act::BareServfail => {
            let mut m = MessageBuilder::new_vec();
            m.header_mut().set_id(reqm.header().id());
            m.header_mut().set_qr(true);
            if act == Act::BareServfail { m.header_mut().set_rcode(Rcode::SERVFAIL); }
            m.into_message().into_octets()
        }
    }
}
/// does this action, delivered in time, complete the request with a response?
fn completes(act: Act) -> bool { matches!(act, Act::Good | Act::BareServfail) }

async fn run_script(script: &[Vec<Step>; 2]) -> Result<(), String> {
    let (wire, mut peer) = mpsc::unbounded_channel::<Sent>();
    let conn = transport(wire);
    let sent = Arc::new(Mutex::new(0usize));
    let sent2 = sent.clone();
    let sc = script.clone();
    tokio::spawn(async move {
        while let Some((dgram, inbox)) = peer.recv().await {
            let k = { let mut s = sent2.lock().unwrap(); *s += 1; *s - 1 };
            if let Some(steps) = sc.get(k) {
                for (act, at) in steps.clone() {
                    let (d, ib) = (dgram.clone(), inbox.clone());
                    tokio::spawn(async move {
                        tokio::time::sleep(Duration::from_millis(at)).await;
                        ib.deliver(reply(act, &d));
                    });
                }
            }
        }
    });
    let budget = READ_TIMEOUT * (1 + u32::from(MAX_RETRIES));
    let start = Instant::now();
    let req = query("example.com");
    let res = tokio::time::timeout(Duration::from_secs(600), conn.send_request(req.clone()).get_response()).await;
    let took = start.elapsed();
    let res = res.map_err(|_| "the request does not complete (still pending after 600 s of virtual time)".to_string())?;
    if took > budget + Duration::from_millis(5) {
        return Err(format!("the request completed after {took:?}, outside the budget of {budget:?} ((1 + max_retries) x read_timeout)"));
    }
    let n = *sent.lock().unwrap();
    if n > 1 + usize::from(MAX_RETRIES) {
        return Err(format!("{n} transmissions, at most {} are allowed", 1 + MAX_RETRIES));
    }
    // what the model expects: the first action, in time order over the transmissions that are reached, that completes
    let mut expect_ok = false;
    'outer: for k in 0..=usize::from(MAX_RETRIES) {
        let mut steps = script[k].clone();
        steps.sort_by_key(|s| s.1);
        for (act, _at) in steps {
            if completes(act) { expect_ok = true; break 'outer; }
        }
    }
    match res {
        Ok(msg) => {
            let bare_error = msg.header().rcode() != Rcode::NOERROR && msg.header_counts().qdcount() == 0
                && msg.header_counts().ancount() == 0 && msg.header_counts().nscount() == 0 && msg.header_counts().arcount() == 0;
            let same_q = msg.first_question().map(|q| (q.qname().to_string(), q.qtype())) == Some(("example.com".to_string(), Rtype::A))
                && msg.header_counts().qdcount() == 1;
            if !msg.header().qr() {
                return Err("the caller was handed a message that is not a response (QR clear)".into());
            }
            if !(same_q || bare_error) {
                return Err(format!("the caller was handed a response that neither repeats its question nor is a header-only error reply: rcode {}, qdcount {}", msg.header().rcode(), msg.header_counts().qdcount()));
            }
            if !expect_ok {
                return Err("the caller was handed a response although the peer sent nothing that answers the request".into());
            }
        }
        Err(e) => {
            if expect_ok {
                return Err(format!("the request failed ({e}) although an answer arrived inside the receive window"));
            }
        }
    }
    Ok(())
}

#[tokio::main(flavor = "current_thread", start_paused = true)]
async fn main() {
    // all step lists of at most two steps
    let mut lists: Vec<Vec<Step>> = vec![vec![]];
    for a in ACTS { for w in WHEN { lists.push(vec![(a, w)]); } }
    for a in ACTS { for w in WHEN { for b in ACTS { for x in WHEN {
        if (a as u8, w) < (b as u8, x) { lists.push(vec![(a, w), (b, x)]); }
    } } } }
    let mut n = 0u64;
    for first in &lists {
        for second in &lists {
            // the second transmission only happens if the first is not answered; scripts whose first list answers are still run
            let script = [first.clone(), second.clone()];
            n += 1;
            if let Err(e) = run_script(&script).await {
                println!("FAILING INPUT: peer script (per transmission: (action, milliseconds after the transmission)) {:?}", script);
                println!("FAIL: {e}");
                std::process::exit(1);
            }
        }
    }
    println!("OK: {n} peer scripts: every request completed inside its budget, with its own answer or an error");
}
