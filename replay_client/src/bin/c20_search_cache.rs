//! C20 -- bounded exploration of the client cache on the real crate under tokio's paused clock (a counterexample
//! finder and bounded stand-in; never counted as a proved obligation). An upstream that answers one question with one
//! of seven response shapes -- an answer (TTL 100), an answer with an RRSIG (TTL 100 / 50), NXDOMAIN with SOA,
//! NODATA with the SOA first, NODATA in the RFC 2308 2.2 "type 1" form with the NS records *ahead of* the SOA, a
//! delegation (NS only), and an answer with the AD bit -- is queried through cache::Connection by a sequence of two
//! or three queries with flag variants (plain, RD=0, AD=1, DO=1) at times chosen around the bounds. Checked for every
//! response handed to the caller:
//!   * every TTL (OPT aside) equals the upstream's TTL minus the whole seconds since the upstream was asked -- never more;
//!   * nothing comes from the cache once the smallest TTL or the configured bound of its kind (max_validity 1000 s,
//!     NXDOMAIN 200 s, NODATA 300 s, delegation 400 s here) has elapsed: the upstream is asked again;
//!   * a query without DO sees no RRSIG / NSEC / NSEC3 record, and the AD bit only if it set AD (or DO).
//! (Mock upstream and paused-clock harness after a round-11 seeding sub-agent's demonstration programs; the
//! enumeration and the oracle are this check's.)
use bytes::Bytes;
use domain::base::iana::{Class, Rcode};
use domain::base::{Message, MessageBuilder, Name, Rtype, Serial, Ttl};
use domain::net::client::cache;
use domain::net::client::request::{ComposeRequest, Error, GetResponse, RequestMessage, SendRequest};
use domain::rdata::{Ns, Soa, A, Rrsig};
use domain::rdata::dnssec::Timestamp;
use domain::base::iana::SecurityAlgorithm;
use std::future::Future;
use std::pin::Pin;
use std::sync::atomic::{AtomicUsize, Ordering};
use std::sync::Arc;
use std::time::Duration;

#[derive(Clone, Copy, Debug, PartialEq)]
enum Shape { Answer, AnswerSig, NxDomain, NoDataSoaFirst, NoDataNsFirst, Delegation, AnswerAd }
const SHAPES: [Shape; 7] = [Shape::Answer, Shape::AnswerSig, Shape::NxDomain, Shape::NoDataSoaFirst, Shape::NoDataNsFirst, Shape::Delegation, Shape::AnswerAd];

#[derive(Clone)]
struct Mock { calls: Arc<AtomicUsize>, shape: Shape }
#[derive(Debug)]
struct MockReq { resp: Result<Message<Bytes>, Error> }
impl GetResponse for MockReq {
    fn get_response(&mut self) -> Pin<Box<dyn Future<Output = Result<Message<Bytes>, Error>> + Send + Sync + '_>> {
        let r = self.resp.clone();
        Box::pin(async move { r })
    }
}
fn soa() -> Soa<Name<Vec<u8>>> {
    Soa::new(Name::vec_from_str("ns1.example.com").unwrap(), Name::vec_from_str("hostmaster.example.com").unwrap(),
             Serial::from(2024010101), Ttl::from_secs(86400), Ttl::from_secs(7200), Ttl::from_secs(3600000), Ttl::from_secs(86400))
}
fn upstream_answer(req: &Message<Vec<u8>>, shape: Shape) -> Message<Bytes> {
    let rcode = if shape == Shape::NxDomain { Rcode::NXDOMAIN } else { Rcode::NOERROR };
    let mut b = MessageBuilder::new_vec().start_answer(req, rcode).unwrap();
    b.header_mut().set_ra(true);
    let zone = Name::vec_from_str("example.com").unwrap();
    let owner = Name::vec_from_str("www.example.com").unwrap();
    let day = Ttl::from_secs(86400);
    if matches!(shape, Shape::Answer | Shape::AnswerSig | Shape::AnswerAd) {
        b.push((&owner, Class::IN, Ttl::from_secs(100), A::from_octets(192, 0, 2, 1))).unwrap();
        // a real upstream adds signatures only for a query with the DO bit, and sets AD only if asked to
        let wants_do = req.opt().map(|o| o.dnssec_ok()).unwrap_or(false);
        if shape == Shape::AnswerSig && wants_do {
            let sig = Rrsig::new(Rtype::A, SecurityAlgorithm::ED25519, 3, Ttl::from_secs(100), Timestamp::from(2000000000), Timestamp::from(1000000000), 7,
                                 zone.clone(), vec![0u8; 64]).unwrap();
            b.push((&owner, Class::IN, Ttl::from_secs(50), sig)).unwrap();
        }
        if shape == Shape::AnswerAd && (wants_do || req.header().ad()) { b.header_mut().set_ad(true); }
    }
    let mut b = b.authority();
    match shape {
        Shape::NxDomain | Shape::NoDataSoaFirst => { b.push((&zone, day, soa())).unwrap(); }
        Shape::NoDataNsFirst => {
            for ns in ["ns1.example.com", "ns2.example.com"] { b.push((&zone, day, Ns::new(Name::vec_from_str(ns).unwrap()))).unwrap(); }
            b.push((&zone, day, soa())).unwrap();
        }
        Shape::Delegation => {
            for ns in ["ns1.example.com", "ns2.example.com"] { b.push((&zone, day, Ns::new(Name::vec_from_str(ns).unwrap()))).unwrap(); }
        }
        _ => {}
    }
    Message::from_octets(Bytes::from(b.finish())).unwrap()
}
impl SendRequest<RequestMessage<Vec<u8>>> for Mock {
    fn send_request(&self, req: RequestMessage<Vec<u8>>) -> Box<dyn GetResponse + Send + Sync> {
        self.calls.fetch_add(1, Ordering::SeqCst);
        let shape = self.shape;
        let resp = req.to_message().map(|m| upstream_answer(&m, shape));
        Box::new(MockReq { resp })
    }
}
#[derive(Clone, Copy, Debug, PartialEq)]
enum Flags { Plain, NoRd, Ad, Do }
const FLAGS: [Flags; 4] = [Flags::Plain, Flags::NoRd, Flags::Ad, Flags::Do];
fn query(f: Flags) -> RequestMessage<Vec<u8>> {
    let mut msg = MessageBuilder::new_vec();
    msg.header_mut().set_rd(f != Flags::NoRd);
    if f == Flags::Ad { msg.header_mut().set_ad(true); }
    let mut msg = msg.question();
    msg.push((Name::vec_from_str("www.example.com").unwrap(), Rtype::A)).unwrap();
    let mut req = RequestMessage::new(msg).unwrap();
    if f == Flags::Do { req.set_dnssec_ok(true); }
    req
}
/// the configured bound for the kind of response (an answer is bounded by its TTLs, which the TTL check covers)
fn keep_secs(shape: Shape) -> u64 {
    match shape {
        Shape::Answer | Shape::AnswerAd | Shape::AnswerSig => 1000,
        Shape::NxDomain => 200,
        Shape::NoDataSoaFirst | Shape::NoDataNsFirst => 300,
        Shape::Delegation => 400,
    }
}
/// around which age the sequences probe
fn probe_secs(shape: Shape) -> u64 {
    match shape { Shape::Answer | Shape::AnswerAd => 100, Shape::AnswerSig => 50, s => keep_secs(s) }
}
fn check_response(what: &str, shape: Shape, f: Flags, age: u64, r: &Message<Bytes>) -> Result<(), String> {
    // TTLs: upstream's minus age
    let orig = |rtype: Rtype| -> u32 { if rtype == Rtype::A { 100 } else if rtype == Rtype::RRSIG { 50 } else { 86400 } };
    let (_, an, ns, ar) = r.sections().map_err(|e| format!("{what}: {e}"))?;
    for (sec, name) in [(an, "answer"), (ns, "authority"), (ar, "additional")] {
        for rr in sec {
            let rr = rr.map_err(|e| format!("{what}: {e}"))?;
            if rr.rtype() == Rtype::OPT { continue; }
            let Some(want) = (orig(rr.rtype()) as u64).checked_sub(age) else {
                return Err(format!("{what}: {name} record of type {} (upstream TTL {}) served {age} s after the upstream was asked", rr.rtype(), orig(rr.rtype())));
            };
            if rr.ttl().as_secs() as u64 != want {
                return Err(format!("{what}: {name} record of type {} has TTL {}, the upstream's TTL {} aged by {age} s is {want}", rr.rtype(), rr.ttl().as_secs(), orig(rr.rtype())));
            }
            if f != Flags::Do && matches!(rr.rtype(), Rtype::RRSIG | Rtype::NSEC | Rtype::NSEC3) {
                return Err(format!("{what}: a {} record is shown to a query that did not set DO", rr.rtype()));
            }
        }
    }
    if r.header().ad() && !(f == Flags::Ad || f == Flags::Do) {
        return Err(format!("{what}: the AD bit is shown to a query that set neither AD nor DO"));
    }
    if shape == Shape::AnswerSig && f == Flags::Do && r.answer().unwrap().count() != 2 {
        return Err(format!("{what}: a DO query does not get the RRSIG"));
    }
    Ok(())
}
async fn scenario(shape: Shape, f1: Flags, f2: Flags, t2: u64, f3: Flags, t3: u64) -> Result<(), String> {
    let calls = Arc::new(AtomicUsize::new(0));
    let mut config = cache::Config::new();
    config.set_max_validity(Duration::from_secs(1000));
    config.set_max_nxdomain_validity(Duration::from_secs(200));
    config.set_max_nodata_validity(Duration::from_secs(300));
    config.set_max_delegation_validity(Duration::from_secs(400));
    let cached = cache::Connection::with_config(Mock { calls: calls.clone(), shape }, config);
    // when the upstream was asked (an entry derived from a cached one keeps the age of its original, so what is served
    // from the cache stems from one of these moments)
    let mut fetches: Vec<u64> = Vec::new();
    let mut now = 0u64;
    let mut last_calls = 0usize;
    for (i, (f, t)) in [(f1, 0u64), (f2, t2), (f3, t3)].into_iter().enumerate() {
        tokio::time::advance(Duration::from_secs(t - now)).await;
        now = t;
        let what = format!("{shape:?}, queries {f1:?}@0 {f2:?}@{t2} {f3:?}@{t3}, query #{}", i + 1);
        let r = cached.send_request(query(f)).get_response().await.map_err(|e| format!("{what}: {e}"))?;
        let c = calls.load(Ordering::SeqCst);
        let from_upstream = c != last_calls;
        last_calls = c;
        if from_upstream {
            check_response(&what, shape, f, 0, &r)?;
            fetches.push(now);
        } else {
            if fetches.is_empty() { return Err(format!("{what}: served from the cache before the upstream was asked")); }
            // some earlier fetch must explain the response: aged by exactly the time since then, and still within its bound
            let mut last_err = String::new();
            let mut explained = false;
            for t0 in fetches.iter().rev() {
                let age = now - t0;
                if age > keep_secs(shape) {
                    last_err = format!("{what}: served from the cache {age} s after the upstream was asked; this kind of response may be kept {} s", keep_secs(shape));
                    continue;
                }
                match check_response(&what, shape, f, age, &r) {
                    Ok(()) => { explained = true; break; }
                    Err(e) => last_err = e,
                }
            }
            if !explained { return Err(last_err); }
        }
    }
    Ok(())
}
fn main() {
    std::thread::spawn(|| { std::thread::sleep(Duration::from_secs(300)); println!("FAIL: search timed out"); std::process::exit(2); });
    let mut n = 0usize;
    for shape in SHAPES {
        let k = probe_secs(shape);
        for f1 in FLAGS { for f2 in FLAGS { for f3 in FLAGS {
            for (t2, t3) in [(k / 2, k), (k / 2, k + 1), (k, k + 1), (k + 1, k + 2), (10, k + 700)] {
                n += 1;
                let rt = tokio::runtime::Builder::new_current_thread().enable_time().start_paused(true).build().unwrap();
                if let Err(e) = rt.block_on(scenario(shape, f1, f2, t2, f3, t3)) {
                    println!("FAIL: {e}");
                    std::process::exit(1);
                }
            }
        }}}
    }
    println!("OK: {n} query sequences against the real cache: TTLs aged exactly, nothing served past its bound, no DNSSEC records or AD bit for queries that did not ask");
}
