#!/bin/sh
# Build the framework from files on disk only (offline).
set -e
cd "$(dirname "$0")"
export CARGO_NET_OFFLINE=true
mkdir -p .build
(cd tools/vxextract && CARGO_TARGET_DIR=../../.build/vxextract cargo build --release --offline)
echo "setup ok"
