#!/bin/sh
# Build the framework from files on disk only (offline).
set -e
cd "$(dirname "$0")"
export CARGO_NET_OFFLINE=true
mkdir -p .build
(cd tools/vxextract && CARGO_TARGET_DIR=../../.build/vxextract cargo build --release --offline)

# warm the native replay crates (dependencies only change with /repo's Cargo.lock); failures here are not fatal
for c in replay replay_net replay_tsig replay_sign replay_xfr replay_client replay_srv; do
  (cd $c && cp /repo/Cargo.lock . 2>/dev/null; CARGO_TARGET_DIR=../.build/$c cargo build --offline -q --bins >/dev/null 2>&1 || true; CARGO_TARGET_DIR=../.build/$c cargo build --offline -q --release --bins >/dev/null 2>&1 || true)
done
# warm the in-crate native test target (private validator items through the verif_native hook)
(cd /repo && RUSTFLAGS="--cfg nlnetlabs_domain_verif" CARGO_TARGET_DIR=/verif/.build/incrate-native cargo test --offline --lib --no-run -q --features bytes,ring,unstable-sign,unstable-validator,unstable-stelline,unstable-zonetree,tokio-stream,net >/dev/null 2>&1 || true)
echo "setup done"
