//! C17: RFC 1982 laws over all 2^64 pairs / all (value, amount) pairs,
//! on the compiled code. Loop-free, full domain: K-complete.
use core::cmp::Ordering;
use domain::base::serial::Serial;

fn spec_lt(a: u32, b: u32) -> bool {
    let (a, b) = (a as u64, b as u64);
    (a < b && b - a < 0x8000_0000) || (a > b && a - b > 0x8000_0000)
}
fn spec_gt(a: u32, b: u32) -> bool {
    let (a, b) = (a as u64, b as u64);
    (a < b && b - a > 0x8000_0000) || (a > b && a - b < 0x8000_0000)
}

#[kani::proof]
pub fn c17_partial_cmp_matches_rfc1982() {
    let a: u32 = kani::any();
    let b: u32 = kani::any();
    let r = Serial(a).partial_cmp(&Serial(b));
    kani::cover!(r.is_none());
    kani::cover!(r == Some(Ordering::Less));
    assert!((r == Some(Ordering::Equal)) == (a == b));
    assert!((r == Some(Ordering::Less)) == spec_lt(a, b));
    assert!((r == Some(Ordering::Greater)) == spec_gt(a, b));
    assert!(r.is_none() == (a.wrapping_sub(b) == 0x8000_0000));
}

#[kani::proof]
pub fn c17_add_strictly_greater() {
    let a: u32 = kani::any();
    let n: u32 = kani::any();
    kani::assume(1 <= n && n <= 0x7FFF_FFFF);
    let s = Serial(a).add(n);
    kani::cover!(s.into_int() < a);
    assert!(s.into_int() as u64 == (a as u64 + n as u64) % 0x1_0000_0000);
    assert!(s.partial_cmp(&Serial(a)) == Some(Ordering::Greater));
    assert!(Serial(a).partial_cmp(&s) == Some(Ordering::Less));
}

#[kani::proof]
pub fn c17_antisymmetric() {
    let a: u32 = kani::any();
    let b: u32 = kani::any();
    let x = Serial(a).partial_cmp(&Serial(b));
    let y = Serial(b).partial_cmp(&Serial(a));
    kani::cover!(x == Some(Ordering::Greater));
    assert!(x == y.map(Ordering::reverse));
}

#[kani::proof]
pub fn c17_translation_invariant() {
    let a: u32 = kani::any();
    let b: u32 = kani::any();
    let n: u32 = kani::any();
    kani::assume(n <= 0x7FFF_FFFF);
    let x = Serial(a).partial_cmp(&Serial(b));
    let y = Serial(a).add(n).partial_cmp(&Serial(b).add(n));
    kani::cover!(x.is_none());
    kani::cover!(a.checked_add(n).is_none() && b.checked_add(n).is_some());
    assert!(x == y);
}

/// signature timestamps compare exactly like serial numbers (RFC 4034 section 3.1.5)
#[kani::proof]
pub fn c17_timestamp_cmp_is_serial_cmp() {
    use domain::rdata::dnssec::Timestamp;
    let a: u32 = kani::any();
    let b: u32 = kani::any();
    let r = Timestamp::from(a).partial_cmp(&Timestamp::from(b));
    kani::cover!(r.is_none());
    assert!(r == Serial(a).partial_cmp(&Serial(b)));
    assert!((r == Some(Ordering::Less)) == spec_lt(a, b));
    assert!(r.is_none() == (a.wrapping_sub(b) == 0x8000_0000));
    assert!(Timestamp::from(a).into_int() == a);
}
