//! Kani harnesses against the real `domain` crate (path dependency on /repo),
//! feature group g0 = default + bytes + heapless.
#![allow(unused)]
#[cfg(kani)]
mod serial;
#[cfg(kani)]
mod codecs;
#[cfg(kani)]
mod message;
#[cfg(kani)]
mod builder;
#[cfg(kani)]
mod order;
#[cfg(kani)]
mod dnssec;
#[cfg(kani)]
mod symbols;
#[cfg(kani)]
mod rdata;
#[cfg(kani)]
mod playback_gen;
