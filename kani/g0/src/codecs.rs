//! C18: the encoders (`display*`) produce the RFC 4648 encodings, per chunk length and over all octet
//! values (K-complete per chunk); the compiled decoders invert them (counterexample source for the Verus
//! decoder proofs). Fixed-array sink, `octseq::array::Array` builder: no heap, no String.
use core::fmt::Write;
use domain::utils::{base16, base32, base64};

pub struct Sink<const N: usize> {
    pub buf: [u8; N],
    pub len: usize,
}
impl<const N: usize> Sink<N> {
    pub fn new() -> Self {
        Sink { buf: [0; N], len: 0 }
    }
}
impl<const N: usize> Write for Sink<N> {
    fn write_str(&mut self, s: &str) -> core::fmt::Result {
        for &b in s.as_bytes() {
            if self.len >= N {
                return Err(core::fmt::Error);
            }
            self.buf[self.len] = b;
            self.len += 1;
        }
        Ok(())
    }
}

/// RFC 4648 Table 1
fn rfc_b64_char(v: u32) -> u8 {
    assert!(v < 64);
    (if v < 26 { 65 + v } else if v < 52 { 97 + v - 26 } else if v < 62 { 48 + v - 52 } else if v == 62 { 43 } else { 47 }) as u8
}
/// RFC 4648 Table 4
fn rfc_b32hex_char(v: u32) -> u8 {
    assert!(v < 32);
    (if v < 10 { 48 + v } else { 65 + v - 10 }) as u8
}
fn rfc_b16_char(v: u32) -> u8 {
    assert!(v < 16);
    (if v < 10 { 48 + v } else { 65 + v - 10 }) as u8
}
fn at(x: &[u8], i: usize) -> u32 {
    if i < x.len() { x[i] as u32 } else { 0 }
}

/// RFC 4648 section 4 by arithmetic on octet values (the same formulas as `rfc_b64_encode` in units/base64)
fn check_b64_chunk(x: &[u8], out: &[u8]) {
    let (a, b, c) = (at(x, 0), at(x, 1), at(x, 2));
    assert!(out.len() == 4);
    assert!(out[0] == rfc_b64_char(a / 4));
    assert!(out[1] == rfc_b64_char((a % 4) * 16 + b / 16));
    assert!(out[2] == if x.len() >= 2 { rfc_b64_char((b % 16) * 4 + c / 64) } else { b'=' });
    assert!(out[3] == if x.len() >= 3 { rfc_b64_char(c % 64) } else { b'=' });
}

macro_rules! b64_display_len {
    ($name:ident, $n:expr) => {
        #[kani::proof]
        #[kani::unwind(6)]
        pub fn $name() {
            let x: [u8; $n] = kani::any();
            let mut out = Sink::<8>::new();
            base64::display(&x, &mut out).unwrap();
            kani::cover!(out.len == 4);
            check_b64_chunk(&x, &out.buf[..out.len]);
        }
    };
}
b64_display_len!(c18_b64_display_len1, 1);
b64_display_len!(c18_b64_display_len2, 2);
b64_display_len!(c18_b64_display_len3, 3);

/// composition over chunks, bounded: 3 + 2 octets
#[kani::proof]
#[kani::unwind(6)]
pub fn c18_b64_display_len5_bounded() {
    let x: [u8; 5] = kani::any();
    let mut out = Sink::<8>::new();
    base64::display(&x, &mut out).unwrap();
    kani::cover!(out.len == 8);
    assert!(out.len == 8);
    check_b64_chunk(&x[..3], &out.buf[..4]);
    check_b64_chunk(&x[3..], &out.buf[4..8]);
}

macro_rules! b64_roundtrip_len {
    ($name:ident, $n:expr) => {
        #[kani::proof]
        #[kani::unwind(6)]
        pub fn $name() {
            let x: [u8; $n] = kani::any();
            let mut out = Sink::<8>::new();
            base64::display(&x, &mut out).unwrap();
            let mut dec = base64::Decoder::<octseq::array::Array<4>>::new();
            let mut i = 0;
            while i < out.len {
                assert!(dec.push(out.buf[i] as char).is_ok());
                i += 1;
            }
            let v = dec.finalize().unwrap();
            kani::cover!(v.len() == $n);
            assert!(v.as_ref() == &x[..]);
        }
    };
}
b64_roundtrip_len!(c18_b64_roundtrip_len1, 1);
b64_roundtrip_len!(c18_b64_roundtrip_len2, 2);
b64_roundtrip_len!(c18_b64_roundtrip_len3, 3);

/// RFC 4648 section 7 (no padding) by arithmetic on octet values (as `rfc_b32hex_encode` in units/base32)
fn check_b32_chunk(x: &[u8], out: &[u8]) {
    let (a, b, c, d, e) = (at(x, 0), at(x, 1), at(x, 2), at(x, 3), at(x, 4));
    let q = [
        a / 8,
        (a % 8) * 4 + b / 64,
        (b % 64) / 2,
        (b % 2) * 16 + c / 16,
        (c % 16) * 2 + d / 128,
        (d % 128) / 4,
        (d % 4) * 8 + e / 32,
        e % 32,
    ];
    let n = match x.len() {
        1 => 2,
        2 => 4,
        3 => 5,
        4 => 7,
        _ => 8,
    };
    assert!(out.len() == n);
    let mut i = 0;
    while i < n {
        assert!(out[i] == rfc_b32hex_char(q[i]));
        i += 1;
    }
}

macro_rules! b32_display_len {
    ($name:ident, $n:expr) => {
        #[kani::proof]
        #[kani::unwind(10)]
        pub fn $name() {
            let x: [u8; $n] = kani::any();
            let mut out = Sink::<16>::new();
            base32::display_hex(&x, &mut out).unwrap();
            kani::cover!(out.len >= 2);
            check_b32_chunk(&x, &out.buf[..out.len]);
        }
    };
}
b32_display_len!(c18_b32_display_len1, 1);
b32_display_len!(c18_b32_display_len2, 2);
b32_display_len!(c18_b32_display_len3, 3);
b32_display_len!(c18_b32_display_len4, 4);
b32_display_len!(c18_b32_display_len5, 5);

#[kani::proof]
#[kani::unwind(10)]
pub fn c18_b32_display_len6_bounded() {
    let x: [u8; 6] = kani::any();
    let mut out = Sink::<16>::new();
    base32::display_hex(&x, &mut out).unwrap();
    kani::cover!(out.len == 10);
    assert!(out.len == 10);
    check_b32_chunk(&x[..5], &out.buf[..8]);
    check_b32_chunk(&x[5..], &out.buf[8..10]);
}

macro_rules! b32_roundtrip_len {
    ($name:ident, $n:expr) => {
        #[kani::proof]
        #[kani::unwind(10)]
        pub fn $name() {
            let x: [u8; $n] = kani::any();
            let mut out = Sink::<16>::new();
            base32::display_hex(&x, &mut out).unwrap();
            let mut dec = base32::Decoder::<octseq::array::Array<8>>::new_hex();
            let mut i = 0;
            while i < out.len {
                assert!(dec.push(out.buf[i] as char).is_ok());
                i += 1;
            }
            let v = dec.finalize().unwrap();
            kani::cover!(v.len() == $n);
            assert!(v.as_ref() == &x[..]);
        }
    };
}
b32_roundtrip_len!(c18_b32_roundtrip_len1, 1);
b32_roundtrip_len!(c18_b32_roundtrip_len2, 2);
b32_roundtrip_len!(c18_b32_roundtrip_len3, 3);
b32_roundtrip_len!(c18_b32_roundtrip_len4, 4);
b32_roundtrip_len!(c18_b32_roundtrip_len5, 5);

#[kani::proof]
#[kani::unwind(4)]
pub fn c18_b16_display_len1() {
    let x: [u8; 1] = kani::any();
    let mut out = Sink::<4>::new();
    base16::display(&x, &mut out).unwrap();
    kani::cover!(out.len == 2);
    assert!(out.len == 2);
    assert!(out.buf[0] == rfc_b16_char(x[0] as u32 / 16));
    assert!(out.buf[1] == rfc_b16_char(x[0] as u32 % 16));
}

#[kani::proof]
#[kani::unwind(4)]
pub fn c18_b16_display_len2_bounded() {
    let x: [u8; 2] = kani::any();
    let mut out = Sink::<4>::new();
    base16::display(&x, &mut out).unwrap();
    kani::cover!(out.len == 4);
    assert!(out.len == 4);
    assert!(out.buf[0] == rfc_b16_char(x[0] as u32 / 16));
    assert!(out.buf[1] == rfc_b16_char(x[0] as u32 % 16));
    assert!(out.buf[2] == rfc_b16_char(x[1] as u32 / 16));
    assert!(out.buf[3] == rfc_b16_char(x[1] as u32 % 16));
}

#[kani::proof]
#[kani::unwind(4)]
pub fn c18_b16_roundtrip_len1() {
    let x: [u8; 1] = kani::any();
    let mut out = Sink::<4>::new();
    base16::display(&x, &mut out).unwrap();
    let mut dec = base16::Decoder::<octseq::array::Array<2>>::new();
    let mut i = 0;
    while i < out.len {
        assert!(dec.push(out.buf[i] as char).is_ok());
        i += 1;
    }
    let v = dec.finalize().unwrap();
    kani::cover!(v.len() == 1);
    assert!(v.as_ref() == &x[..]);
}

/// char::to_digit(16) is assumed (not proved) in units/base16 to be the RFC 4648 Base16 value function;
/// this harness checks that assumption on the compiled core library for every char.
#[kani::proof]
pub fn c18_char_to_digit16_matches_rfc() {
    let c: char = kani::any();
    let expect = if ('0'..='9').contains(&c) {
        Some(c as u32 - 48)
    } else if ('A'..='F').contains(&c) {
        Some(c as u32 - 65 + 10)
    } else if ('a'..='f').contains(&c) {
        Some(c as u32 - 97 + 10)
    } else {
        None
    };
    kani::cover!(expect.is_some());
    assert!(c.to_digit(16) == expect);
}
