//! C04: equality, order and hash of labels and records are coherent; label order is the RFC 4034 section 6.1
//! order (octet strings compared with ASCII letters lower-cased).
use core::cmp::Ordering;
use core::hash::{Hash, Hasher};
use domain::base::cmp::CanonicalOrd;
use domain::base::iana::Class;
use domain::base::name::{Label, Name};
use domain::base::{Record, Ttl};
use domain::rdata::A;

/// a hasher that records what is written (equal recordings <=> equal hashes under every hasher)
pub struct Rec<const N: usize> {
    pub buf: [u8; N],
    pub len: usize,
    pub overflow: bool,
}
impl<const N: usize> Rec<N> {
    pub fn new() -> Self {
        Rec { buf: [0; N], len: 0, overflow: false }
    }
    pub fn same(&self, o: &Rec<N>) -> bool {
        if self.overflow || o.overflow || self.len != o.len {
            return false;
        }
        let mut i = 0;
        while i < self.len {
            if self.buf[i] != o.buf[i] {
                return false;
            }
            i += 1;
        }
        true
    }
}
impl<const N: usize> Hasher for Rec<N> {
    fn finish(&self) -> u64 {
        0
    }
    fn write(&mut self, bytes: &[u8]) {
        let mut i = 0;
        while i < bytes.len() {
            if self.len < N {
                self.buf[self.len] = bytes[i];
                self.len += 1;
            } else {
                self.overflow = true;
            }
            i += 1;
        }
    }
}

fn lower(b: u8) -> u8 {
    if b >= b'A' && b <= b'Z' { b + 32 } else { b }
}
/// RFC 4034 section 6.1: labels as octet strings, upper-case ASCII letters treated as lower case
fn ref_cmp(a: &[u8], b: &[u8]) -> Ordering {
    let mut i = 0;
    while i < a.len() && i < b.len() {
        let (x, y) = (lower(a[i]), lower(b[i]));
        if x < y { return Ordering::Less; }
        if x > y { return Ordering::Greater; }
        i += 1;
    }
    a.len().cmp(&b.len())
}

macro_rules! label_coherence {
    ($name:ident, $n:expr, $unwind:expr, $h:expr) => {
        #[kani::proof]
        #[kani::unwind($unwind)]
        pub fn $name() {
            let a: [u8; $n] = kani::any();
            let b: [u8; $n] = kani::any();
            let la: usize = kani::any();
            let lb: usize = kani::any();
            kani::assume(la <= $n && lb <= $n);
            let x = Label::from_slice(&a[..la]).unwrap();
            let y = Label::from_slice(&b[..lb]).unwrap();
            let c = x.cmp(y);
            kani::cover!(c == Ordering::Equal && la > 0 && a[0] != b[0]); // equal up to case
            kani::cover!(c == Ordering::Less);
            // the order is the RFC 4034 6.1 order
            assert!(c == ref_cmp(&a[..la], &b[..lb]));
            // equality, order, partial order agree; antisymmetry
            assert!((x == y) == (c == Ordering::Equal));
            assert!(x.partial_cmp(y) == Some(c));
            assert!(y.cmp(x) == c.reverse());
            // equal labels hash equal
            if x == y {
                let (mut h1, mut h2) = (Rec::<$h>::new(), Rec::<$h>::new());
                x.hash(&mut h1);
                y.hash(&mut h2);
                assert!(h1.same(&h2));
            }
            // composed_cmp / lowercase_composed_cmp: order of the wire form [len] ++ octets
            let lc = x.lowercase_composed_cmp(y);
            assert!(lc == if la != lb { la.cmp(&lb) } else { c });
            let cc = x.composed_cmp(y);
            if la != lb { assert!(cc == la.cmp(&lb)); } else { assert!((cc == Ordering::Equal) == (a[..la] == b[..lb])); }
        }
    };
}
label_coherence!(c04_label_order_eq_hash_len8_bounded, 8, 11, 10);
label_coherence!(c04_label_order_eq_hash_len63, 63, 66, 65);

/// transitivity of the label order (bounded: three labels of at most 4 octets)
#[kani::proof]
#[kani::unwind(6)]
pub fn c04_label_order_transitive_bounded() {
    let a: [u8; 4] = kani::any();
    let b: [u8; 4] = kani::any();
    let c: [u8; 4] = kani::any();
    let (la, lb, lc): (usize, usize, usize) = (kani::any(), kani::any(), kani::any());
    kani::assume(la <= 4 && lb <= 4 && lc <= 4);
    let x = Label::from_slice(&a[..la]).unwrap();
    let y = Label::from_slice(&b[..lb]).unwrap();
    let z = Label::from_slice(&c[..lc]).unwrap();
    kani::cover!(x.cmp(y) == Ordering::Less && y.cmp(z) == Ordering::Less);
    if x.cmp(y) != Ordering::Greater && y.cmp(z) != Ordering::Greater {
        assert!(x.cmp(z) != Ordering::Greater);
    }
    if x == y && y == z {
        assert!(x == z);
    }
}

/// records that compare equal hash equal (Eq ignores the TTL), for every class, TTL pair and address.
/// `impl Hash for Record<Name, Data>` is generic and has no bound that looks into the owner, so the owner
/// is instantiated with `u8` here (hashing a real name needs label loops that CBMC does not finish).
#[kani::proof]
#[kani::unwind(24)]
pub fn c04_record_eq_implies_hash_eq() {
    let owner: u8 = kani::any();
    let (c1, c2): (u16, u16) = (kani::any(), kani::any());
    let (t1, t2): (u32, u32) = (kani::any(), kani::any());
    let (a1, a2): ([u8; 4], [u8; 4]) = (kani::any(), kani::any());
    let r1 = Record::new(owner, Class::from_int(c1), Ttl::from_secs(t1), A::from_octets(a1[0], a1[1], a1[2], a1[3]));
    let r2 = Record::new(owner, Class::from_int(c2), Ttl::from_secs(t2), A::from_octets(a2[0], a2[1], a2[2], a2[3]));
    kani::cover!(r1 == r2 && t1 != t2);
    assert!((r1 == r2) == (c1 == c2 && a1 == a2));
    if r1 == r2 {
        let (mut h1, mut h2) = (Rec::<20>::new(), Rec::<20>::new());
        r1.hash(&mut h1);
        r2.hash(&mut h2);
        assert!(h1.same(&h2));
    }
}

// A harness comparing two flat names of at most 6 octets (name_eq / == / name_cmp / Hash against a label-wise
// reference) ran out of memory in CBMC after 22 min and was removed: names across representations are not covered.

/// Names, flat representation: `name_eq` / `==` against the label-wise RFC 4034 reference (equal iff same label
/// lengths and content octets equal up to ASCII case). Bounded: the label layout is fixed (1 + 2 octets of
/// content, then the root label); the three content octets of each name range over all values.
#[kani::proof]
#[kani::unwind(12)]
pub fn c04_name_eq_fixed_layout_bounded() {
    use domain::base::name::ToName;
    let a: [u8; 3] = kani::any();
    let b: [u8; 3] = kani::any();
    let xa = [1u8, a[0], 2, a[1], a[2], 0];
    let xb = [1u8, b[0], 2, b[1], b[2], 0];
    let x = Name::from_octets(xa).unwrap();
    let y = Name::from_octets(xb).unwrap();
    let ref_eq = lower(a[0]) == lower(b[0]) && lower(a[1]) == lower(b[1]) && lower(a[2]) == lower(b[2]);
    kani::cover!(ref_eq && a != b);
    kani::cover!(!ref_eq && (a[0] | 0x20) == (b[0] | 0x20) && a[1] == b[1] && a[2] == b[2]);
    assert!(x.name_eq(&y) == ref_eq);
    assert!((x == y) == ref_eq);
}

// `name_cmp` (label iterators walked from the back) does not finish in CBMC even for two names of one
// single-octet label (15 min); a harness with hashing and a compressed ParsedName ran 25 min without verdict.
// The name order is under contract in the Verus unit `nameorder` instead.

/// Names, flat representation: names that compare equal write the same octets to any `Hasher`.
/// Bounded: fixed label layout (1 + 2 content octets, root), all content octets.
#[kani::proof]
#[kani::unwind(12)]
pub fn c04_name_eq_implies_hash_eq_fixed_layout_bounded() {
    let a: [u8; 3] = kani::any();
    let b: [u8; 3] = kani::any();
    let x = Name::from_octets([1u8, a[0], 2, a[1], a[2], 0]).unwrap();
    let y = Name::from_octets([1u8, b[0], 2, b[1], b[2], 0]).unwrap();
    kani::cover!(x == y && a != b);
    if x == y {
        let (mut h1, mut h2) = (Rec::<16>::new(), Rec::<16>::new());
        x.hash(&mut h1);
        y.hash(&mut h2);
        assert!(h1.same(&h2));
        assert!(!h1.overflow && h1.len > 0);
    }
}

/// Names: `composed_cmp` is the octet order of the wire forms and `lowercase_composed_cmp` the octet order of the
/// canonical (lower-cased) wire forms, on the compiled code -- the counterpart of unit nameorder's contracts,
/// independent of how the comparison is written (fast paths, iterator adapters).
/// Bounded: two flat names with the fixed label layout 1+2 content octets and the root label; all content octets.
#[kani::proof]
#[kani::unwind(12)]
pub fn c04_name_composed_cmp_fixed_layout_bounded() {
    use domain::base::name::ToName;
    let a: [u8; 3] = kani::any();
    let b: [u8; 3] = kani::any();
    let xa = [1u8, a[0], 2, a[1], a[2], 0];
    let xb = [1u8, b[0], 2, b[1], b[2], 0];
    let x = Name::from_octets(xa).unwrap();
    let y = Name::from_octets(xb).unwrap();
    // same layout: the wire forms differ only in the content octets, in this order
    let mut plain = Ordering::Equal;
    let mut lowered = Ordering::Equal;
    let mut i = 0;
    while i < 3 {
        if plain == Ordering::Equal {
            plain = a[i].cmp(&b[i]);
        }
        if lowered == Ordering::Equal {
            lowered = lower(a[i]).cmp(&lower(b[i]));
        }
        i += 1;
    }
    kani::cover!(plain != lowered);
    kani::cover!(lowered == Ordering::Equal && plain != Ordering::Equal);
    assert!(x.composed_cmp(&y) == plain);
    assert!(x.lowercase_composed_cmp(&y) == lowered);
}

/// Character strings (base/charstr.rs; the comparison code is written with iterator adapters, outside Verus):
/// == is equality up to ASCII case; cmp / partial_cmp are the order of the lower-cased octet strings and Equal
/// exactly on equal values; equal strings write the same octets to any Hasher; canonical_cmp is the octet order of
/// the wire form (length octet, then the octets as they are: RFC 4034 6.2 does not lower-case character strings).
/// Bounded: two strings of at most 6 octets, all contents.
#[kani::proof]
#[kani::unwind(9)]
pub fn c04_charstr_order_eq_hash_len6_bounded() {
    use domain::base::charstr::CharStr;
    let a: [u8; 6] = kani::any();
    let b: [u8; 6] = kani::any();
    let la: usize = kani::any();
    let lb: usize = kani::any();
    kani::assume(la <= 6 && lb <= 6);
    let x = CharStr::from_slice(&a[..la]).unwrap();
    let y = CharStr::from_slice(&b[..lb]).unwrap();
    let c = x.cmp(y);
    kani::cover!(c == Ordering::Equal && la > 0 && a[0] != b[0]);
    kani::cover!(c == Ordering::Less);
    assert!(c == ref_cmp(&a[..la], &b[..lb]));
    assert!((x == y) == (c == Ordering::Equal));
    assert!(x.partial_cmp(y) == Some(c));
    assert!(y.cmp(x) == c.reverse());
    if x == y {
        let (mut h1, mut h2) = (Rec::<8>::new(), Rec::<8>::new());
        x.hash(&mut h1);
        y.hash(&mut h2);
        assert!(h1.same(&h2));
    }
    let cc = x.canonical_cmp(y);
    if la != lb {
        assert!(cc == la.cmp(&lb));
    } else {
        let mut plain = Ordering::Equal;
        let mut i = 0;
        while i < la {
            if plain == Ordering::Equal {
                plain = a[i].cmp(&b[i]);
            }
            i += 1;
        }
        assert!(cc == plain);
    }
}
