//! C02: message builder mechanics on the compiled code.
use domain::base::header::HeaderCounts;
use domain::base::iana::{Class, Rtype};
use domain::base::message_builder::{MessageBuilder, StaticCompressor, StreamTarget};
use domain::base::name::Name;
use domain::base::{Message, Question, Ttl};
use domain::rdata::A;
use octseq::array::Array;
use octseq::builder::{OctetsBuilder, Truncate};

/// the four section counters: increment is exact, reports overflow at 0xFFFF and then leaves all counts unchanged
#[kani::proof]
pub fn c02_header_counts_inc_total() {
    let raw: [u8; 12] = kani::any();
    let mut buf = raw;
    let which: u8 = kani::any();
    kani::assume(which < 4);
    let before = *HeaderCounts::for_message_slice(&buf);
    let c = HeaderCounts::for_message_slice_mut(&mut buf);
    let r = match which {
        0 => c.inc_qdcount(),
        1 => c.inc_ancount(),
        2 => c.inc_nscount(),
        _ => c.inc_arcount(),
    };
    let after = *c;
    let old = [before.qdcount(), before.ancount(), before.nscount(), before.arcount()];
    let new = [after.qdcount(), after.ancount(), after.nscount(), after.arcount()];
    kani::cover!(r.is_err());
    kani::cover!(r.is_ok());
    let mut i = 0;
    while i < 4 {
        if i == which as usize && r.is_ok() {
            assert!(old[i] != 0xFFFF && new[i] == old[i] + 1);
        } else {
            assert!(new[i] == old[i]);
        }
        i += 1;
    }
    assert!(r.is_err() == (old[which as usize] == 0xFFFF));
    // the header part in front of the counts is never touched
    assert!(buf[..4] == raw[..4]);
}

/// the two-octet fields of the three fixed headers, as compiled (`u16::from_be_bytes(inner[a..b].try_into().unwrap())` and
/// `inner[a..b].copy_from_slice(&v.to_be_bytes())`, which unit wirehdr substitutes by be16_of / put_be16): every getter
/// reads the big-endian pair at its RFC position, every setter writes exactly that pair; all header contents, all values
#[kani::proof]
pub fn c02_wire_header_u16_fields() {
    use domain::base::header::Header;
    use domain::base::opt::OptHeader;
    let raw: [u8; 21] = kani::any();
    let v: u16 = kani::any();
    let hi = (v >> 8) as u8;
    let lo = v as u8;
    let be = |a: u8, b: u8| (a as u16) * 256 + b as u16;
    // Header: ID
    let mut buf = raw;
    assert!(Header::for_message_slice(&buf).id() == be(raw[0], raw[1]));
    Header::for_message_slice_mut(&mut buf).set_id(v);
    assert!(buf[0] == hi && buf[1] == lo && buf[2..] == raw[2..]);
    // HeaderCounts: the four counts at message offsets 4, 6, 8, 10
    let which: usize = kani::any();
    kani::assume(which < 4);
    let mut buf = raw;
    let c = *HeaderCounts::for_message_slice(&buf);
    let got = [c.qdcount(), c.ancount(), c.nscount(), c.arcount()];
    let alias = [c.zocount(), c.prcount(), c.upcount(), c.adcount()];
    assert!(got[which] == be(raw[4 + 2 * which], raw[5 + 2 * which]) && alias[which] == got[which]);
    let alias_set: bool = kani::any();
    let cm = HeaderCounts::for_message_slice_mut(&mut buf);
    match (which, alias_set) {
        (0, false) => cm.set_qdcount(v),
        (1, false) => cm.set_ancount(v),
        (2, false) => cm.set_nscount(v),
        (3, false) => cm.set_arcount(v),
        (0, true) => cm.set_zocount(v),
        (1, true) => cm.set_prcount(v),
        (2, true) => cm.set_upcount(v),
        _ => cm.set_adcount(v),
    }
    let mut i = 0;
    while i < 21 {
        if i == 4 + 2 * which {
            assert!(buf[i] == hi);
        } else if i == 5 + 2 * which {
            assert!(buf[i] == lo);
        } else {
            assert!(buf[i] == raw[i]);
        }
        i += 1;
    }
    // OptHeader: the CLASS field (octets 3 and 4 of the fixed part of the OPT record, here at 12..21)
    let mut buf = raw;
    assert!(OptHeader::for_record_slice(&buf[12..]).udp_payload_size() == be(raw[15], raw[16]));
    OptHeader::for_record_slice_mut(&mut buf[12..]).set_udp_payload_size(v);
    assert!(buf[15] == hi && buf[16] == lo && buf[..15] == raw[..15] && buf[17..] == raw[17..]);
}

fn shim_ok<const N: usize>(t: &StreamTarget<Array<N>>) -> bool {
    let s = t.as_stream_slice();
    s.len() >= 2 && u16::from_be_bytes([s[0], s[1]]) as usize == s.len() - 2 && t.as_dgram_slice().len() == s.len() - 2
}

/// stream target: after every append / truncate the two-octet prefix equals the message length (bounded: 12-octet target,
/// three operations)
#[kani::proof]
#[kani::unwind(14)]
pub fn c02_stream_target_prefix_bounded() {
    let mut t = StreamTarget::new(Array::<12>::new()).unwrap();
    assert!(shim_ok(&t));
    let data: [u8; 6] = kani::any();
    let n1: usize = kani::any();
    kani::assume(n1 <= 6);
    let r1 = t.append_slice(&data[..n1]);
    assert!(shim_ok(&t));
    let cut: usize = kani::any();
    kani::assume(cut <= 12);
    let before = t.as_dgram_slice().len();
    t.truncate(cut);
    assert!(shim_ok(&t));
    assert!(t.as_dgram_slice().len() == core::cmp::min(cut, before));
    let n2: usize = kani::any();
    kani::assume(n2 <= 6);
    let len2 = t.as_dgram_slice().len();
    let r2 = t.append_slice(&data[..n2]);
    kani::cover!(r2.is_err());
    kani::cover!(r2.is_ok() && n2 > 0);
    assert!(shim_ok(&t));
    // a refused append leaves the message as it was
    if r2.is_err() {
        assert!(t.as_dgram_slice().len() == len2);
    } else {
        assert!(t.as_dgram_slice().len() == len2 + n2);
    }
}

/// a push that fails (no space, or push limit) leaves octets and counts exactly as they were; a successful one
/// increments exactly one count (bounded: 40-octet target, fixed question, symbolic push limit)
#[kani::proof]
#[kani::unwind(12)]
pub fn c02_failed_push_leaves_message_unchanged_bounded() {
    let limit: usize = kani::any();
    kani::assume(limit <= 48);
    let mut mb = MessageBuilder::from_target(Array::<40>::new()).unwrap();
    mb.set_push_limit(limit);
    let mut qb = mb.question();
    let name = Name::from_slice(b"\x03abc\x02de\0").unwrap();
    let before_len = qb.as_slice().len();
    let r = qb.push(Question::new(name, Rtype::A, Class::IN));
    kani::cover!(r.is_ok());
    kani::cover!(r.is_err());
    let counts = qb.counts();
    if r.is_err() {
        assert!(qb.as_slice().len() == before_len);
        assert!(counts.qdcount() == 0);
    } else {
        assert!(counts.qdcount() == 1);
        assert!(qb.as_slice().len() == before_len + 8 + 4);
        assert!(qb.as_slice().len() < limit);
    }
    assert!(counts.ancount() == 0 && counts.nscount() == 0 && counts.arcount() == 0);
    // second push into what is left: again all-or-nothing
    let len1 = qb.as_slice().len();
    let q1 = counts.qdcount();
    let r2 = qb.push(Question::new(name, Rtype::AAAA, Class::IN));
    if r2.is_err() {
        assert!(qb.as_slice().len() == len1 && qb.counts().qdcount() == q1);
    } else {
        assert!(qb.counts().qdcount() == q1 + 1);
    }
}

// A build-then-parse round trip harness (question + two A records through StaticCompressor<Array<80>>, parsed back with
// Message) did not terminate in CBMC within 25 min and was removed; the sequence-level round trip is not under contract.

/// A target that "appends" without copying: its length jumps by an amount armed from outside, so the stream
/// target's length arithmetic is exercised at every message length, including the 65535/65536 edge, without
/// symbolic 64 KiB writes.
pub struct JumpTarget {
    buf: [u8; 65600],
    len: usize,
    jump: core::cell::Cell<usize>,
}
impl AsRef<[u8]> for JumpTarget {
    fn as_ref(&self) -> &[u8] {
        &self.buf[..self.len]
    }
}
impl AsMut<[u8]> for JumpTarget {
    fn as_mut(&mut self) -> &mut [u8] {
        &mut self.buf[..self.len]
    }
}
impl OctetsBuilder for JumpTarget {
    type AppendError = core::convert::Infallible;
    fn append_slice(&mut self, slice: &[u8]) -> Result<(), Self::AppendError> {
        self.len += slice.len() + self.jump.get();
        self.jump.set(0);
        Ok(())
    }
}
impl Truncate for JumpTarget {
    fn truncate(&mut self, len: usize) {
        if len < self.len {
            self.len = len;
        }
    }
}
impl domain::base::wire::Composer for JumpTarget {}

/// stream target: an append is refused (ShortBuf) exactly when the message would exceed 65535 octets, and after
/// every accepted append the prefix equals the message length -- every resulting message length up to 65590
#[kani::proof]
#[kani::unwind(4)]
pub fn c02_stream_target_length_limit() {
    let jump: usize = kani::any();
    kani::assume(jump <= 65590);
    let t = JumpTarget { buf: [0; 65600], len: 0, jump: core::cell::Cell::new(0) };
    let mut st = StreamTarget::new(t).unwrap();
    assert!(st.as_dgram_slice().len() == 0);
    st.as_target().jump.set(jump);
    // this append grows the message to 1 + jump octets
    let r = st.append_slice(&[0u8]);
    let msg_len = st.as_dgram_slice().len();
    kani::cover!(msg_len == 65535 && r.is_ok());
    kani::cover!(msg_len == 65536);
    assert!(msg_len == 1 + jump);
    assert!(r.is_ok() == (msg_len <= 65535));
    let s = st.as_stream_slice();
    if r.is_ok() {
        assert!(u16::from_be_bytes([s[0], s[1]]) as usize == msg_len);
    }
}
