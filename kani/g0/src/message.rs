//! C01: read-side operations on the 12-octet header (unsafe pointer casts in header.rs are checked by
//! CBMC's pointer checks) and the CNAME-chain bound in `Message::canonical_name`.
use domain::base::iana::Rtype;
use domain::base::Message;

/// every header getter on every 12-octet header, through `Message::from_slice` (transmute) and
/// `Header::for_message_slice` / `HeaderCounts::for_message_slice` (pointer casts)
#[kani::proof]
pub fn c01_header_getters_total() {
    let buf: [u8; 12] = kani::any();
    let msg = Message::from_slice(&buf).unwrap();
    let h = msg.header();
    let c = msg.header_counts();
    let _ = (h.id(), h.qr(), h.opcode(), h.aa(), h.tc(), h.rd(), h.ra(), h.z(), h.ad(), h.cd(), h.rcode(), h.flags());
    kani::cover!(h.qr());
    assert!(h.id() == u16::from_be_bytes([buf[0], buf[1]]));
    assert!(h.qr() == (buf[2] & 0x80 != 0));
    assert!(h.tc() == (buf[2] & 0x02 != 0));
    assert!(c.qdcount() == u16::from_be_bytes([buf[4], buf[5]]));
    assert!(c.ancount() == u16::from_be_bytes([buf[6], buf[7]]));
    assert!(c.nscount() == u16::from_be_bytes([buf[8], buf[9]]));
    assert!(c.arcount() == u16::from_be_bytes([buf[10], buf[11]]));
    let hs = msg.header_section();
    assert!(hs.counts().ancount() == c.ancount());
    assert!(msg.is_error() == !msg.no_error());
}

/// shorter than a header: rejected, never a view
#[kani::proof]
#[kani::unwind(13)]
pub fn c01_short_message_rejected() {
    let buf: [u8; 12] = kani::any();
    let n: usize = kani::any();
    kani::assume(n <= 12);
    let r = Message::from_slice(&buf[..n]);
    kani::cover!(r.is_ok());
    kani::cover!(r.is_err());
    assert!(r.is_ok() == (n == 12));
}

// `Message::canonical_name` is NOT under contract: both a symbolic-ANCOUNT harness and a fully concrete one
// (question-only message, ANCOUNT = 0xFFFF) exceed 13-25 min in CBMC (generic record iterators and name comparison).
// Defect D2 (`ancount() + 1` overflows at 0xFFFF) is demonstrated natively by replay/src/bin/d2_canonical_name_ancount.rs.
