//! C01: read-side operations on the 12-octet header (unsafe pointer casts in header.rs are checked by
//! CBMC's pointer checks) and the CNAME-chain bound in `Message::canonical_name`.
use domain::base::iana::Rtype;
use domain::base::Message;

/// every header getter on every 12-octet header, through `Message::from_slice` (transmute) and
/// `Header::for_message_slice` / `HeaderCounts::for_message_slice` (pointer casts)
#[kani::proof]
pub fn c01_header_getters_total() {
    let buf: [u8; 12] = kani::any();
    let msg = Message::from_slice(&buf).unwrap();
    let h = msg.header();
    let c = msg.header_counts();
    let _ = (h.id(), h.qr(), h.opcode(), h.aa(), h.tc(), h.rd(), h.ra(), h.z(), h.ad(), h.cd(), h.rcode(), h.flags());
    kani::cover!(h.qr());
    assert!(h.id() == u16::from_be_bytes([buf[0], buf[1]]));
    assert!(h.qr() == (buf[2] & 0x80 != 0));
    assert!(h.tc() == (buf[2] & 0x02 != 0));
    assert!(c.qdcount() == u16::from_be_bytes([buf[4], buf[5]]));
    assert!(c.ancount() == u16::from_be_bytes([buf[6], buf[7]]));
    assert!(c.nscount() == u16::from_be_bytes([buf[8], buf[9]]));
    assert!(c.arcount() == u16::from_be_bytes([buf[10], buf[11]]));
    let hs = msg.header_section();
    assert!(hs.counts().ancount() == c.ancount());
    assert!(msg.is_error() == !msg.no_error());
}

/// shorter than a header: rejected, never a view
#[kani::proof]
#[kani::unwind(13)]
pub fn c01_short_message_rejected() {
    let buf: [u8; 12] = kani::any();
    let n: usize = kani::any();
    kani::assume(n <= 12);
    let r = Message::from_slice(&buf[..n]);
    kani::cover!(r.is_ok());
    kani::cover!(r.is_err());
    assert!(r.is_ok() == (n == 12));
}

// `Message::canonical_name` is NOT under contract: both a symbolic-ANCOUNT harness and a fully concrete one
// (question-only message, ANCOUNT = 0xFFFF) exceed 13-25 min in CBMC (generic record iterators and name comparison).
// Defect D2 (`ancount() + 1` overflows at 0xFFFF) is demonstrated natively by replay/src/bin/d2_canonical_name_ancount.rs.

/// EDNS client subnet (RFC 7871 6): ClientSubnet::parse on every option payload of at most 24 octets -- no panic (the
/// fixed address buffers are sliced with a length taken from the prefix-length octet); a value comes back only for
/// family 1 or 2, a source prefix that fits the family, exactly ceil(prefix / 8) address octets and no bit set beyond
/// the prefix; what comes back composes to the payload it was read from. Payloads of more than 20 octets are always
/// refused (at most 16 address octets, then nothing may remain), so the length bound loses nothing.
#[kani::proof]
#[kani::unwind(26)]
pub fn c01_client_subnet_parse_total_bounded() {
    use domain::base::opt::subnet::ClientSubnet;
    use domain::base::opt::ComposeOptData;
    use octseq::array::Array;
    use octseq::parse::Parser;
    let buf: [u8; 24] = kani::any();
    let n: usize = kani::any();
    kani::assume(n <= 24);
    let payload = &buf[..n];
    let mut parser = Parser::from_ref(&payload);
    let r = ClientSubnet::parse(&mut parser);
    kani::cover!(r.is_ok());
    if let Ok(cs) = r {
        let family = u16::from_be_bytes([buf[0], buf[1]]);
        let source = buf[2];
        assert!(n >= 4 && (family == 1 || family == 2));
        assert!(source as usize <= if family == 1 { 32 } else { 128 });
        assert!(n - 4 == (source as usize + 7) / 8);
        assert!(cs.source_prefix_len() == source && cs.scope_prefix_len() == buf[3]);
        let mut out = Array::<24>::new();
        assert!(cs.compose_option(&mut out).is_ok());
        assert!(out.as_ref() == payload);
        assert!(usize::from(cs.compose_len()) == n);
    }
}
