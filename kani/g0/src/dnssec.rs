//! C12/C13: DNSSEC helper computations on the compiled code.
use domain::base::iana::{Rtype, SecurityAlgorithm};
use domain::rdata::dnssec::{Dnskey, RtypeBitmap};

/// RFC 4034 Appendix B, transcribed from the reference C code: the key tag is computed over the DNSKEY RDATA
/// (flags, protocol, algorithm, public key)
fn rfc4034_keytag(rdata: &[u8]) -> u16 {
    let mut ac: u32 = 0;
    let mut i = 0;
    while i < rdata.len() {
        ac += if i & 1 == 1 { rdata[i] as u32 } else { (rdata[i] as u32) << 8 };
        i += 1;
    }
    ac += (ac >> 16) & 0xFFFF;
    (ac & 0xFFFF) as u16
}

/// key tag == RFC 4034 Appendix B for every flags/protocol/algorithm (except RSAMD5) and key of at most 12 octets
#[kani::proof]
#[kani::unwind(18)]
pub fn c12_key_tag_matches_rfc4034_bounded() {
    let flags: u16 = kani::any();
    let protocol: u8 = kani::any();
    let alg: u8 = kani::any();
    kani::assume(alg != 1);
    let key: [u8; 12] = kani::any();
    let n: usize = kani::any();
    kani::assume(n <= 12);
    let k = Dnskey::new(flags, protocol, SecurityAlgorithm::from_int(alg), &key[..n]).unwrap();
    let mut rdata = [0u8; 16];
    rdata[0] = (flags >> 8) as u8;
    rdata[1] = flags as u8;
    rdata[2] = protocol;
    rdata[3] = alg;
    let mut i = 0;
    while i < n {
        rdata[4 + i] = key[i];
        i += 1;
    }
    kani::cover!(n == 12);
    kani::cover!(n == 1);
    assert!(k.key_tag() == rfc4034_keytag(&rdata[..4 + n]));
}

/// RSA/MD5 keys (algorithm 1): the tag is the third-to-last and second-to-last octets of the key, 0 if the key is
/// too short; never a panic
#[kani::proof]
#[kani::unwind(10)]
pub fn c12_key_tag_rsamd5_bounded() {
    let key: [u8; 6] = kani::any();
    let n: usize = kani::any();
    kani::assume(n <= 6);
    let k = Dnskey::new(kani::any(), kani::any(), SecurityAlgorithm::RSAMD5, &key[..n]).unwrap();
    let t = k.key_tag();
    kani::cover!(n == 2);
    kani::cover!(n == 6);
    if n > 2 {
        assert!(t == u16::from_be_bytes([key[n - 3], key[n - 2]]));
    } else {
        assert!(t == 0);
    }
}

macro_rules! key_tag_len {
    ($name:ident, $n:expr) => {
        #[kani::proof]
        #[kani::unwind(56)]
        pub fn $name() {
            let flags: u16 = kani::any();
            let protocol: u8 = kani::any();
            let alg: u8 = kani::any();
            kani::assume(alg != 1);
            let key: [u8; $n] = kani::any();
            let k = Dnskey::new(flags, protocol, SecurityAlgorithm::from_int(alg), &key[..]).unwrap();
            let mut rdata = [0u8; $n + 4];
            rdata[0] = (flags >> 8) as u8;
            rdata[1] = flags as u8;
            rdata[2] = protocol;
            rdata[3] = alg;
            let mut i = 0;
            while i < $n {
                rdata[4 + i] = key[i];
                i += 1;
            }
            assert!(k.key_tag() == rfc4034_keytag(&rdata[..]));
        }
    };
}
key_tag_len!(c12_key_tag_matches_rfc4034_len48_bounded, 48);

use domain::rdata::dnssec::RtypeBitmapBuilder;
use octseq::array::Array;

/// C13: the type bitmap built from one type contains exactly that type, in RFC 4034 4.1.2 form (one window
/// block, bitmap length 1..=32 with a non-zero last octet) -- bounded: a single add, all 65536 type values.
/// (Two adds in arbitrary order did not terminate in CBMC within 16 min: copy_within with symbolic offsets.)
#[kani::proof]
#[kani::unwind(36)]
pub fn c13_rtype_bitmap_one_add_bounded() {
    let t1: u16 = kani::any();
    let q: u16 = kani::any();
    let mut b = RtypeBitmapBuilder::<Array<36>>::with_builder(Array::new());
    b.add(Rtype::from_int(t1)).unwrap();
    let bm = b.finalize();
    assert!(bm.contains(Rtype::from_int(q)) == (q == t1));
    let s = bm.as_slice();
    assert!(s.len() >= 3);
    let (block, len) = (s[0] as u16, s[1] as usize);
    assert!(block == t1 >> 8);
    assert!(len == ((t1 & 0xFF) / 8) as usize + 1 && s.len() == 2 + len);
    assert!(s[2 + len - 1] == 0x80 >> (t1 & 7));
}

/// RRSIG Labels field (RFC 4034 3.1.3) on the compiled code: `ToName::rrsig_label_count` of a three-label owner
/// `a.b.c.` counts the labels without the root and without a LEFTMOST asterisk label only.
/// Bounded: fixed label layout (three one-octet labels and the root), all content octets.
#[kani::proof]
#[kani::unwind(8)]
pub fn c12_rrsig_label_count_fixed_layout_bounded() {
    use domain::base::name::{Name, ToName};
    let a: [u8; 3] = kani::any();
    let name = Name::from_octets([1u8, a[0], 1, a[1], 1, a[2], 0]).unwrap();
    let expect = if a[0] == b'*' { 2 } else { 3 };
    kani::cover!(a[0] != b'*' && a[1] == b'*');
    kani::cover!(a[0] == b'*' && a[1] == b'*');
    assert!(name.rrsig_label_count() == expect);
    let root = Name::from_octets([0u8]).unwrap();
    assert!(root.rrsig_label_count() == 0);
    let wild = Name::from_octets([1u8, b'*', 0]).unwrap();
    assert!(wild.rrsig_label_count() == 0);
}
