//! C05: record data compose/parse round trip and exact lengths, per type, on the compiled generic code.
use domain::base::iana::Rtype;
use domain::base::rdata::{ComposeRecordData, ParseRecordData, RecordData};
use domain::rdata::{Aaaa, A};
use octseq::array::Array;
use octseq::parse::Parser;

/// A: every address; rdlen == octets written == 4; parse(compose(x)) == x; canonical form identical
#[kani::proof]
#[kani::unwind(6)]
pub fn c05_a_roundtrip() {
    let o: [u8; 4] = kani::any();
    let a = A::from_octets(o[0], o[1], o[2], o[3]);
    let mut buf = Array::<8>::new();
    a.compose_rdata(&mut buf).unwrap();
    assert!(a.rdlen(false) == Some(4));
    assert!(buf.as_ref() == &o[..]);
    let mut canon = Array::<8>::new();
    a.compose_canonical_rdata(&mut canon).unwrap();
    assert!(canon.as_ref() == buf.as_ref());
    let slice: &[u8] = buf.as_ref();
    let mut parser = Parser::from_ref(slice);
    let back = A::parse_rdata(Rtype::A, &mut parser).unwrap().unwrap();
    assert!(back == a && parser.remaining() == 0);
    assert!(a.rtype() == Rtype::A);
}

/// A: parsing any RDATA of 0..=6 octets succeeds iff it has exactly 4 octets (the record layer then rejects
/// trailing data), and what is accepted re-composes to the same octets
#[kani::proof]
#[kani::unwind(8)]
pub fn c05_a_parse_any_rdata() {
    let raw: [u8; 6] = kani::any();
    let n: usize = kani::any();
    kani::assume(n <= 6);
    let slice = &raw[..n];
    let mut parser = Parser::from_ref(slice);
    let r = A::parse_rdata(Rtype::A, &mut parser);
    kani::cover!(r.is_ok());
    kani::cover!(r.is_err());
    assert!(r.is_ok() == (n >= 4));
    if let Ok(Some(a)) = r {
        assert!(parser.pos() == 4);
        let mut buf = Array::<8>::new();
        a.compose_rdata(&mut buf).unwrap();
        assert!(buf.as_ref() == &raw[..4]);
    }
}

/// AAAA: every address
#[kani::proof]
#[kani::unwind(20)]
pub fn c05_aaaa_roundtrip() {
    let o: [u8; 16] = kani::any();
    let a = Aaaa::new(o.into());
    let mut buf = Array::<20>::new();
    a.compose_rdata(&mut buf).unwrap();
    assert!(a.rdlen(false) == Some(16));
    assert!(buf.as_ref() == &o[..]);
    let slice: &[u8] = buf.as_ref();
    let mut parser = Parser::from_ref(slice);
    let back = Aaaa::parse_rdata(Rtype::AAAA, &mut parser).unwrap().unwrap();
    assert!(back == a && parser.remaining() == 0);
}

use domain::base::iana::{SecurityAlgorithm, DigestAlgorithm};
use domain::base::name::Name;
use domain::base::charstr::CharStr;
use domain::rdata::{Dnskey, Ds, Hinfo, Mx, Srv, Sshfp, Tlsa};

/// shared shape: compose into a fixed array, check the advertised length, parse back, compare, re-compose
macro_rules! roundtrip {
    ($val:expr, $ty:ty, $rtype:expr, $cap:expr) => {{
        let val = $val;
        let mut buf = Array::<$cap>::new();
        val.compose_rdata(&mut buf).unwrap();
        // the advertised RDATA length equals the number of octets actually written
        assert!(val.rdlen(false) == Some(buf.as_ref().len() as u16));
        let slice: &[u8] = buf.as_ref();
        let mut parser = Parser::from_ref(slice);
        let back = <$ty as ParseRecordData<'_, [u8]>>::parse_rdata($rtype, &mut parser).unwrap().unwrap();
        assert!(parser.remaining() == 0);
        assert!(back == val);
        // what the parser accepted re-composes to the same octets
        let mut again = Array::<$cap>::new();
        back.compose_rdata(&mut again).unwrap();
        assert!(again.as_ref() == buf.as_ref());
        // no embedded names: the canonical form is the wire form
        let mut canon = Array::<$cap>::new();
        val.compose_canonical_rdata(&mut canon).unwrap();
        assert!(canon.as_ref() == buf.as_ref());
    }};
}

/// the same through the type's inherent `parse` (types without a ParseRecordData impl for plain slices)
macro_rules! roundtrip_inherent {
    ($val:expr, $ty:ident, $cap:expr) => {{
        let val = $val;
        let mut buf = Array::<$cap>::new();
        val.compose_rdata(&mut buf).unwrap();
        assert!(val.rdlen(false) == Some(buf.as_ref().len() as u16));
        let slice: &[u8] = buf.as_ref();
        let mut parser = Parser::from_ref(slice);
        let back = $ty::parse(&mut parser).unwrap();
        assert!(parser.remaining() == 0);
        assert!(back == val);
        let mut again = Array::<$cap>::new();
        back.compose_rdata(&mut again).unwrap();
        assert!(again.as_ref() == buf.as_ref());
        let mut canon = Array::<$cap>::new();
        val.compose_canonical_rdata(&mut canon).unwrap();
        assert!(canon.as_ref() == buf.as_ref());
    }};
}

/// DS: all scalar fields, digests of 0..=6 octets
#[kani::proof]
#[kani::unwind(20)]
pub fn c05_ds_roundtrip_bounded() {
    let digest: [u8; 6] = kani::any();
    let n: usize = kani::any();
    kani::assume(n <= 6);
    let v = Ds::new(kani::any(), SecurityAlgorithm::from_int(kani::any()), DigestAlgorithm::from_int(kani::any()), &digest[..n]).unwrap();
    roundtrip!(v, Ds<&[u8]>, Rtype::DS, 16);
}

/// DNSKEY: all scalar fields, keys of 0..=6 octets
#[kani::proof]
#[kani::unwind(20)]
pub fn c05_dnskey_roundtrip_bounded() {
    let key: [u8; 6] = kani::any();
    let n: usize = kani::any();
    kani::assume(n <= 6);
    let v = Dnskey::new(kani::any(), kani::any(), SecurityAlgorithm::from_int(kani::any()), &key[..n]).unwrap();
    roundtrip!(v, Dnskey<&[u8]>, Rtype::DNSKEY, 16);
}

/// TLSA and SSHFP: all scalar fields, data of 0..=6 octets
#[kani::proof]
#[kani::unwind(20)]
pub fn c05_tlsa_sshfp_roundtrip_bounded() {
    let data: [u8; 6] = kani::any();
    let n: usize = kani::any();
    kani::assume(n <= 6);
    let t = Tlsa::new(u8::into(kani::any()), u8::into(kani::any()), u8::into(kani::any()), &data[..n]);
    roundtrip_inherent!(t, Tlsa, 16);
    let s = Sshfp::new(u8::into(kani::any()), u8::into(kani::any()), &data[..n]);
    roundtrip_inherent!(s, Sshfp, 16);
}

/// HINFO: two character strings of 0..=3 octets each
#[kani::proof]
#[kani::unwind(20)]
pub fn c05_hinfo_roundtrip_bounded() {
    let d: [u8; 6] = kani::any();
    let (n1, n2): (usize, usize) = (kani::any(), kani::any());
    kani::assume(n1 <= 3 && n2 <= 3);
    let v = Hinfo::new(CharStr::from_octets(&d[..n1]).unwrap(), CharStr::from_octets(&d[3..3 + n2]).unwrap());
    roundtrip!(v, Hinfo<&[u8]>, Rtype::HINFO, 16);
}

/// MX and SRV with a fixed two-label target name: scalar fields symbolic; the canonical form lower-cases the
/// embedded name (RFC 4034 6.2) and is otherwise the wire form
#[kani::proof]
#[kani::unwind(20)]
pub fn c05_mx_srv_roundtrip_bounded() {
    let name = Name::from_slice(b"\x01A\x02bC\0").unwrap();
    let mx = Mx::new(kani::any(), name);
    let mut buf = Array::<16>::new();
    mx.compose_rdata(&mut buf).unwrap();
    assert!(mx.rdlen(false) == Some(buf.as_ref().len() as u16));
    let mut canon = Array::<16>::new();
    mx.compose_canonical_rdata(&mut canon).unwrap();
    assert!(canon.as_ref()[..2] == buf.as_ref()[..2]);
    assert!(&canon.as_ref()[2..] == b"\x01a\x02bc\0");
    assert!(&buf.as_ref()[2..] == b"\x01A\x02bC\0");
    let srv = Srv::new(kani::any(), kani::any(), kani::any(), name);
    let mut buf = Array::<16>::new();
    srv.compose_rdata(&mut buf).unwrap();
    assert!(srv.rdlen(false) == Some(buf.as_ref().len() as u16));
    assert!(buf.as_ref().len() == 6 + 6);
    let mut canon = Array::<16>::new();
    srv.compose_canonical_rdata(&mut canon).unwrap();
    // RFC 6840 5.1 keeps SRV in the list of types whose names are lower-cased
    assert!(&canon.as_ref()[6..] == b"\x01a\x02bc\0");
}


/// character strings: the length octet is read as an unsigned octet -- every length 0..=255 on a 256-octet buffer
/// (contents fixed, length symbolic), and short buffers are rejected
#[kani::proof]
#[kani::unwind(4)]
pub fn c05_charstr_parse_every_length() {
    let mut raw = [0x61u8; 256];
    let l: u8 = kani::any();
    let avail: usize = kani::any();
    kani::assume(avail <= 256 && avail >= 1);
    raw[0] = l;
    let slice = &raw[..avail];
    let mut parser = Parser::from_ref(slice);
    let r = CharStr::parse(&mut parser);
    kani::cover!(r.is_ok() && l >= 128);
    kani::cover!(r.is_err());
    assert!(r.is_ok() == (1 + l as usize <= avail));
    if let Ok(cs) = r {
        assert!(cs.len() == l as usize);
        assert!(parser.pos() == 1 + l as usize);
    }
}

// A harness composing an MX through `ZoneRecordData` (rdata/macros.rs dispatch) did not finish in CBMC within
// 18 min even for one variant and one method (the enum pulls in the code of every record type): the
// macro-generated dispatch is not under contract.
