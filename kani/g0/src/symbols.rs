//! C06: the per-symbol layer shared by the presentation-format writer and reader.
use crate::codecs::Sink;
use core::fmt::Write;
use domain::base::name::Label;
use domain::base::scan::Symbol;

/// what the zone-file tokenizer treats as the end of a word when it stands unescaped
fn ends_word(b: u8) -> bool {
    b == b' ' || b == b'\t' || b == b'\r' || b == b'\n' || b == b'(' || b == b')' || b == b';' || b == b'"'
}

/// reads the symbols of `text` and returns the octet of the only symbol, requiring that all of the text is consumed
fn read_single_symbol(text: &[u8]) -> Option<(Symbol, u8)> {
    let (sym, end) = Symbol::from_slice_index(text, 0).ok()??;
    if end != text.len() {
        return None;
    }
    Some((sym, sym.into_octet().ok()?))
}

/// Symbol::from_octet -> Display -> Symbol::from_slice_index gives the octet back, for every octet, consuming exactly
/// the written text; and the written symbol never ends a word in the tokenizer
#[kani::proof]
#[kani::unwind(9)]
pub fn c06_symbol_octet_roundtrip() {
    let b: u8 = kani::any();
    let sym = Symbol::from_octet(b);
    let mut out = Sink::<8>::new();
    write!(&mut out, "{}", sym).unwrap();
    let r = read_single_symbol(&out.buf[..out.len]);
    kani::cover!(out.len == 4);
    kani::cover!(out.len == 1);
    assert!(r.is_some());
    let (sym2, b2) = r.unwrap();
    assert!(b2 == b);
    assert!(sym2.is_word_char());
}

/// one-octet labels: Display -> reader gives the octet back and the text is a single word for the tokenizer
/// (owner names are written with Label's Display)
#[kani::proof]
#[kani::unwind(9)]
pub fn c06_label_octet_display_roundtrip() {
    let b: u8 = kani::any();
    let arr = [b];
    let label = Label::from_slice(&arr).unwrap();
    let mut out = Sink::<8>::new();
    write!(&mut out, "{}", label).unwrap();
    let text = &out.buf[..out.len];
    let r = read_single_symbol(text);
    assert!(r.is_some());
    let (sym2, b2) = r.unwrap();
    assert!(b2 == b);
    // a label separator must not appear unescaped either
    assert!(!(out.len == 1 && text[0] == b'.'));
    // a label at the start of a line must not look like a control entry ($ORIGIN, $TTL, ...)
    assert!(text[0] != b'$');
    // the reader must not see the end of the word inside the label
    assert!(sym2.is_word_char());
    assert!(!(out.len == 1 && ends_word(text[0])));
}

/// Symbol::from_slice_index on every buffer of at most 6 octets and every position (the function looks at no more
/// than four octets from `pos`): total; None exactly at/after the end; a returned end is > pos, <= len and at most
/// pos + 4; plain ASCII is read as itself; a decimal escape yields its value
#[kani::proof]
pub fn c06_from_slice_index_window_bounded() {
    let buf: [u8; 6] = kani::any();
    let n: usize = kani::any();
    let pos: usize = kani::any();
    kani::assume(n <= 6 && pos <= 8);
    let s = &buf[..n];
    let r = Symbol::from_slice_index(s, pos);
    kani::cover!(matches!(r, Ok(Some((Symbol::DecimalEscape(_), _)))));
    kani::cover!(r.is_err());
    match r {
        Ok(None) => assert!(pos >= n),
        Ok(Some((sym, end))) => {
            assert!(pos < n && end > pos && end <= n && end <= pos + 4);
            let c1 = s[pos];
            if c1 < 128 && c1 != b'\\' {
                assert!(sym == Symbol::Char(c1 as char) && end == pos + 1);
            }
            if let Symbol::DecimalEscape(v) = sym {
                assert!(end == pos + 4 && c1 == b'\\');
                let d = |x: u8| (x - b'0') as u32;
                assert!(v as u32 == d(s[pos + 1]) * 100 + d(s[pos + 2]) * 10 + d(s[pos + 3]));
            }
            if let Symbol::SimpleEscape(v) = sym {
                assert!(end == pos + 2 && c1 == b'\\' && v == s[pos + 1] && !(v < 0x20 || v == 0x7F) && !(v >= b'0' && v <= b'9'));
            }
        }
        Err(_) => assert!(pos < n),
    }
}

/// core's ASCII classification used by the reader (assumed in units/symbols): every octet
#[kani::proof]
pub fn c06_core_ascii_classes_match() {
    let b: u8 = kani::any();
    assert!(b.is_ascii_control() == (b < 0x20 || b == 0x7F));
    assert!(b.is_ascii_digit() == (b >= 0x30 && b <= 0x39));
    let c: char = kani::any();
    assert!(c.is_ascii() == ((c as u32) < 128));
}

/// Symbol::from_chars (the reader behind FromStr of names and behind IterScanner): it looks at four characters at most,
/// so four symbolic characters and a symbolic length are all inputs there are. Against RFC 1035 5.1 written out
/// independently: a plain character stands for itself; `\DDD` with three decimal digits is the octet DDD exactly when
/// DDD <= 255; `\X` with X a printable ASCII character other than a digit is X; everything else is an error; the
/// empty source gives None; and exactly the characters of the symbol are consumed.
#[kani::proof]
#[kani::unwind(6)]
pub fn c06_symbol_from_chars_all_inputs() {
    let cs: [char; 4] = kani::any();
    let n: usize = kani::any();
    kani::assume(n <= 4);
    let mut it = cs[..n].iter().copied();
    let r = Symbol::from_chars(&mut it);
    let left = it.len();
    let digit = |c: char| ('0'..='9').contains(&c);
    let val = |c: char| c as u32 - '0' as u32;
    if n == 0 {
        assert!(matches!(r, Ok(None)));
    } else if cs[0] != '\\' {
        assert!(r == Ok(Some(Symbol::Char(cs[0]))) && left == n - 1);
    } else if n == 1 {
        assert!(r.is_err());
    } else if digit(cs[1]) {
        if n >= 4 && digit(cs[2]) && digit(cs[3]) {
            let v = val(cs[1]) * 100 + val(cs[2]) * 10 + val(cs[3]);
            kani::cover!(v == 255);
            if v <= 255 {
                assert!(r == Ok(Some(Symbol::DecimalEscape(v as u8))) && left == n - 4);
            } else {
                assert!(r.is_err());
            }
        } else {
            assert!(r.is_err());
        }
    } else if (cs[1] as u32) >= 0x20 && (cs[1] as u32) <= 0x7E {
        assert!(r == Ok(Some(Symbol::SimpleEscape(cs[1] as u8))) && left == n - 2);
    } else {
        assert!(r.is_err());
    }
}
