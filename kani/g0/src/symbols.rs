//! C06: the per-symbol layer shared by the presentation-format writer and reader.
use crate::codecs::Sink;
use core::fmt::Write;
use domain::base::name::Label;
use domain::base::scan::Symbol;

/// what the zone-file tokenizer treats as the end of a word when it stands unescaped
fn ends_word(b: u8) -> bool {
    b == b' ' || b == b'\t' || b == b'\r' || b == b'\n' || b == b'(' || b == b')' || b == b';' || b == b'"'
}

/// reads the symbols of `text` and returns the octet of the only symbol, requiring that all of the text is consumed
fn read_single_symbol(text: &[u8]) -> Option<(Symbol, u8)> {
    let (sym, end) = Symbol::from_slice_index(text, 0).ok()??;
    if end != text.len() {
        return None;
    }
    Some((sym, sym.into_octet().ok()?))
}

/// Symbol::from_octet -> Display -> Symbol::from_slice_index gives the octet back, for every octet, consuming exactly
/// the written text; and the written symbol never ends a word in the tokenizer
#[kani::proof]
#[kani::unwind(9)]
pub fn c06_symbol_octet_roundtrip() {
    let b: u8 = kani::any();
    let sym = Symbol::from_octet(b);
    let mut out = Sink::<8>::new();
    write!(&mut out, "{}", sym).unwrap();
    let r = read_single_symbol(&out.buf[..out.len]);
    kani::cover!(out.len == 4);
    kani::cover!(out.len == 1);
    assert!(r.is_some());
    let (sym2, b2) = r.unwrap();
    assert!(b2 == b);
    assert!(sym2.is_word_char());
}

/// one-octet labels: Display -> reader gives the octet back and the text is a single word for the tokenizer
/// (owner names are written with Label's Display)
#[kani::proof]
#[kani::unwind(9)]
pub fn c06_label_octet_display_roundtrip() {
    let b: u8 = kani::any();
    let arr = [b];
    let label = Label::from_slice(&arr).unwrap();
    let mut out = Sink::<8>::new();
    write!(&mut out, "{}", label).unwrap();
    let text = &out.buf[..out.len];
    let r = read_single_symbol(text);
    assert!(r.is_some());
    let (sym2, b2) = r.unwrap();
    assert!(b2 == b);
    // a label separator must not appear unescaped either
    assert!(!(out.len == 1 && text[0] == b'.'));
    // a label at the start of a line must not look like a control entry ($ORIGIN, $TTL, ...)
    assert!(text[0] != b'$');
    // the reader must not see the end of the word inside the label
    assert!(sym2.is_word_char());
    assert!(!(out.len == 1 && ends_word(text[0])));
}
