// In-crate Kani harness for net::client::stream::Queries (private), included by the hook
// hook: #[cfg(kani)] mod verif_kani { include!("/verif/kani/incrate/<file>.rs"); }
use super::Queries;
use std::vec::Vec;

const SLOTS: usize = 4;

/// Queries against a plain array model, for every sequence of 4 operations (insert / try_remove of any index /
/// re-insert of a just-removed entry with insert_at): an ID handed out is never one that is still outstanding,
/// try_remove returns exactly what was stored, count == number of outstanding entries (bounded: 4 operations)
#[kani::proof]
#[kani::unwind(6)]
pub fn c15_queries_match_model_bounded() {
    let mut q: Queries<u8> = Queries::new();
    let mut model: [Option<u8>; SLOTS] = [None; SLOTS];
    let mut step = 0;
    while step < 4 {
        let op: u8 = kani::any();
        if op % 3 == 0 {
            let val: u8 = kani::any();
            match q.insert(val) {
                Ok((id, item)) => {
                    let id = id as usize;
                    assert!(*item == val);
                    assert!(id < SLOTS);
                    // the slot must have been free: no outstanding request loses its ID
                    assert!(model[id].is_none());
                    model[id] = Some(val);
                }
                Err(_) => assert!(false), // cannot be full with at most 4 entries
            }
        } else {
            let idx: u16 = kani::any();
            kani::assume((idx as usize) < SLOTS + 1);
            let got = q.try_remove(idx);
            let expect = if (idx as usize) < SLOTS { model[idx as usize] } else { None };
            assert!(got == expect);
            if (idx as usize) < SLOTS {
                model[idx as usize] = None;
            }
            if op % 3 == 2 {
                // the stream transport puts a request back under the same ID (more responses expected)
                if let Some(v) = got {
                    q.insert_at(idx, v);
                    model[idx as usize] = Some(v);
                }
            }
        }
        // count and emptiness agree with the model
        let mut n = 0;
        let mut i = 0;
        while i < SLOTS {
            if model[i].is_some() {
                n += 1;
            }
            i += 1;
        }
        assert!(q.count == n);
        assert!(q.is_empty() == (n == 0));
        step += 1;
    }
    kani::cover!(q.count == 2);
}

const STEP_SLOTS: usize = 6;

/// One operation from ANY well-formed state (the representation invariant of the Verus unit `queries`: `curr` is at
/// most the first free slot, `count` is the number of occupied slots): `insert` never hands out a slot that is
/// occupied and changes no other slot; `try_remove` returns what was stored; the invariant is preserved.
/// Because every reachable state is well formed (Verus, unbounded), this covers every history -- bounded only in
/// the table size (at most 6 slots).
#[kani::proof]
#[kani::unwind(9)]
pub fn c15_queries_step_from_any_state_bounded() {
    let len: usize = kani::any();
    kani::assume(len <= STEP_SLOTS);
    let cells: [Option<u8>; STEP_SLOTS] = kani::any();
    let mut vec: Vec<Option<u8>> = Vec::new();
    let mut count = 0;
    let mut first_free = len;
    let mut i = 0;
    while i < len {
        vec.push(cells[i]);
        if cells[i].is_some() {
            count += 1;
        } else if first_free == len {
            first_free = i;
        }
        i += 1;
    }
    let curr: usize = kani::any();
    kani::assume(curr <= first_free);
    let mut q: Queries<u8> = Queries { count, curr, vec };
    let val: u8 = kani::any();
    let do_insert: bool = kani::any();
    if do_insert {
        kani::cover!(len == STEP_SLOTS && count == 3 && first_free == 1 && curr == 1);
        match q.insert(val) {
            Ok((id, item)) => {
                let id = id as usize;
                assert!(*item == val);
                assert!(id <= len && id < STEP_SLOTS + 1);
                // the slot was free (or is new): no outstanding request loses its ID
                assert!(id == len || cells[id].is_none());
                assert!(q.vec[id] == Some(val));
                assert!(q.count == count + 1);
                let mut j = 0;
                while j < len {
                    if j != id {
                        assert!(q.vec[j] == cells[j]);
                    }
                    j += 1;
                }
            }
            Err(_) => assert!(false),
        }
    } else {
        let idx: u16 = kani::any();
        kani::assume((idx as usize) <= STEP_SLOTS);
        let got = q.try_remove(idx);
        let expect = if (idx as usize) < len { cells[idx as usize] } else { None };
        assert!(got == expect);
        assert!(q.count == count - (if expect.is_some() { 1 } else { 0 }));
    }
    // invariant preserved
    assert!(q.curr <= q.vec.len());
    let mut j = 0;
    let mut n = 0;
    while j < q.vec.len() {
        if q.vec[j].is_some() {
            n += 1;
        } else {
            assert!(q.curr <= j);
        }
        j += 1;
    }
    assert!(q.count == n);
}
include!("/verif/kani/incrate/gen/repo_client.rs");
