// In-crate Kani harness for net::client::stream::Queries (private), included by the hook
// hook: #[cfg(kani)] mod verif_kani { include!("/verif/kani/incrate/<file>.rs"); }
use super::Queries;

const SLOTS: usize = 4;

/// Queries against a plain array model, for every sequence of 4 operations (insert / try_remove of any index /
/// re-insert of a just-removed entry with insert_at): an ID handed out is never one that is still outstanding,
/// try_remove returns exactly what was stored, count == number of outstanding entries (bounded: 4 operations)
#[kani::proof]
#[kani::unwind(6)]
pub fn c15_queries_match_model_bounded() {
    let mut q: Queries<u8> = Queries::new();
    let mut model: [Option<u8>; SLOTS] = [None; SLOTS];
    let mut step = 0;
    while step < 4 {
        let op: u8 = kani::any();
        if op % 3 == 0 {
            let val: u8 = kani::any();
            match q.insert(val) {
                Ok((id, item)) => {
                    let id = id as usize;
                    assert!(*item == val);
                    assert!(id < SLOTS);
                    // the slot must have been free: no outstanding request loses its ID
                    assert!(model[id].is_none());
                    model[id] = Some(val);
                }
                Err(_) => assert!(false), // cannot be full with at most 4 entries
            }
        } else {
            let idx: u16 = kani::any();
            kani::assume((idx as usize) < SLOTS + 1);
            let got = q.try_remove(idx);
            let expect = if (idx as usize) < SLOTS { model[idx as usize] } else { None };
            assert!(got == expect);
            if (idx as usize) < SLOTS {
                model[idx as usize] = None;
            }
            if op % 3 == 2 {
                // the stream transport puts a request back under the same ID (more responses expected)
                if let Some(v) = got {
                    q.insert_at(idx, v);
                    model[idx as usize] = Some(v);
                }
            }
        }
        // count and emptiness agree with the model
        let mut n = 0;
        let mut i = 0;
        while i < SLOTS {
            if model[i].is_some() {
                n += 1;
            }
            i += 1;
        }
        assert!(q.count == n);
        assert!(q.is_empty() == (n == 0));
        step += 1;
    }
    kani::cover!(q.count == 2);
}
