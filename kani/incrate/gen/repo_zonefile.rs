// generated at run time by khlib.native_playback (concrete playback tests of a failed harness); empty otherwise
