// In-crate Kani harness for zonefile::inplace::SourceBuf (private), included by the hook
// hook: #[cfg(kani)] mod verif_kani { include!("/verif/kani/incrate/<file>.rs"); }
use super::{ItemCat, SourceBuf};
use bytes::BytesMut;

const N: usize = 4;

/// `next_item` on the compiled code, for every buffer tail of at most 4 octets and every parenthesis depth
/// 0..=2: it returns (no panic, no read outside the buffer, loop bound N+2 is enough: it terminates), the
/// read position stays inside the buffer and the reported item category matches the octet it stopped at.
/// Independent of how the loop is written (the Verus unit `zfsource` proves the same for buffers of every
/// length but is tied to the loop structure of the source text).
#[kani::proof]
#[kani::unwind(7)]
pub fn c07_next_item_total_bounded() {
    let data: [u8; N] = kani::any();
    let n: usize = kani::any();
    kani::assume(n <= N);
    let mut sb = SourceBuf::with_empty_buf(BytesMut::new());
    sb.buf.extend_from_slice(&data[..n]);
    let parens: usize = kani::any();
    kani::assume(parens <= 2);
    sb.parens = parens;
    let lf: bool = kani::any();
    if lf {
        sb.cat = ItemCat::LineFeed;
    }
    let r = sb.next_item();
    let len = sb.buf.len();
    assert!(len == n + 1);
    assert!(sb.start >= 1 && sb.start <= len);
    kani::cover!(r.is_ok() && matches!(sb.cat, ItemCat::Unquoted) && sb.start == len - 1);
    kani::cover!(r.is_ok() && matches!(sb.cat, ItemCat::None) && n == N);
    kani::cover!(r.is_err());
    match r {
        Ok(()) => match sb.cat {
            ItemCat::None => assert!(sb.start == len),
            ItemCat::LineFeed => {
                assert!(sb.buf[sb.start - 1] == b'\n' && sb.parens == 0);
                assert!(sb.line_start == sb.start as isize);
            }
            ItemCat::Quoted => assert!(sb.buf[sb.start - 1] == b'"'),
            ItemCat::Unquoted => {
                assert!(sb.start < len);
                let ch = sb.buf[sb.start];
                assert!(!matches!(ch, b' ' | b'\t' | b'\r' | b'\n' | b'(' | b')' | b';' | b'"'));
            }
        },
        Err(_) => {
            assert!(sb.start < len && sb.buf[sb.start] == b')' && sb.parens == 0);
        }
    }
}
include!("/verif/kani/incrate/gen/repo_zonefile.rs");
