// In-crate Kani harnesses (included with include!, so no inner doc comments here)
// hook: #[cfg(kani)] mod verif_kani { include!("/verif/kani/incrate/<file>.rs"); }
use super::*;

fn ver_le(a: u32, b: u32) -> bool {
    a == b || (a < b && b - a < 0x8000_0000) || (a > b && a - b > 0x8000_0000)
}

/// the abstract lookup of units/versioned (spec_get), executable: newest entry with version <= v
fn ref_get(hist: &[(u32, Option<u8>)], n: usize, v: u32) -> Option<u8> {
    let mut i = n;
    while i > 0 {
        i -= 1;
        if ver_le(hist[i].0, v) {
            return hist[i].1;
        }
    }
    None
}

/// Versioned::get (iterator adapters) == the abstract lookup, for every table of at most 4 entries with
/// arbitrary versions and values and every reader version (bounded: 4 entries)
#[kani::proof]
#[kani::unwind(6)]
pub fn c09_versioned_get_matches_spec_bounded() {
    let hist: [(u32, Option<u8>); 4] = kani::any();
    let n: usize = kani::any();
    kani::assume(n <= 4);
    let mut z = Versioned::<u8> { data: Vec::new() };
    let mut i = 0;
    while i < n {
        z.data.push((Version(Serial(hist[i].0)), hist[i].1));
        i += 1;
    }
    let v: u32 = kani::any();
    let got = z.get(Version(Serial(v))).copied();
    kani::cover!(got.is_some() && n == 4);
    kani::cover!(got.is_none() && n > 0);
    assert!(got == ref_get(&hist, n, v));
}

/// a successor version is strictly newer (RFC 1982) -- all 2^32 versions
#[kani::proof]
pub fn c09_version_next_is_newer() {
    let a: u32 = kani::any();
    let v = Version(Serial(a));
    let n = v.next();
    assert!(v < n && !(n <= v) && v != n);
}
include!("/verif/kani/incrate/gen/repo_zonetree.rs");
