// In-crate native search for dnssec::validator::nsec::nsec3_label_to_hash (private module; included by the hook at
// the end of /repo/src/dnssec/validator/nsec.rs under cfg(all(test, nlnetlabs_domain_verif))): a bounded exploration
// of the real function, run on every check of C14. No owner label an upstream server can send makes it panic; it
// answers Some exactly for unpadded Base32hex text (RFC 5155 3.3: digits and A-V in either case, length mod 8 not 1,
// 3 or 6), and the hash it returns writes back as the label.
use super::*;
use std::format;
use std::string::String;

fn judge(label_octets: &[u8]) -> Result<(), String> {
    let label = match Label::from_slice(label_octets) {
        Ok(l) => l,
        Err(_) => return Ok(()),
    };
    let shown = format!("{:?} ({} octets)", String::from_utf8_lossy(label_octets), label_octets.len());
    let r = std::panic::catch_unwind(|| nsec3_label_to_hash(label));
    let r = match r {
        Ok(r) => r,
        Err(_) => return Err(format!("nsec3_label_to_hash panics for the label {}", shown)),
    };
    let alphabet = label_octets.iter().all(|c| c.is_ascii_digit() || matches!(c.to_ascii_uppercase(), b'A'..=b'V'));
    let wellformed = alphabet && !matches!(label_octets.len() % 8, 1 | 3 | 6);
    match r {
        Some(h) => {
            if !wellformed {
                return Err(format!("nsec3_label_to_hash accepts the label {} which is not Base32hex text", shown));
            }
            let back = format!("{}", h);
            // trailing bits that do not belong to an octet are not written back; compare what is determined
            if back.len() != label_octets.len() || !back.as_bytes()[..back.len().saturating_sub(1)].eq_ignore_ascii_case(&label_octets[..label_octets.len().saturating_sub(1)]) {
                return Err(format!("nsec3_label_to_hash({}) = {} which does not write back as the label", shown, back));
            }
            Ok(())
        }
        None => {
            if wellformed {
                return Err(format!("nsec3_label_to_hash rejects the Base32hex label {}", shown));
            }
            Ok(())
        }
    }
}

#[test]
fn c14_search_nsec3_labels() {
    let hook = std::panic::take_hook();
    std::panic::set_hook(std::boxed::Box::new(|_| {}));
    let mut failures: std::vec::Vec<String> = std::vec::Vec::new();
    let mut count = 0u32;
    let alpha: [u8; 11] = [b'0', b'9', b'a', b'v', b'A', b'V', b'w', b'-', b'=', b' ', 0xFF];
    // every string of up to 4 octets over the small alphabet
    for len in 0..=4usize {
        let mut idx = [0usize; 4];
        loop {
            let s: std::vec::Vec<u8> = idx[..len].iter().map(|i| alpha[*i]).collect();
            count += 1;
            if let Err(e) = judge(&s) {
                failures.push(e);
            }
            let mut k = 0;
            while k < len {
                idx[k] += 1;
                if idx[k] < alpha.len() {
                    break;
                }
                idx[k] = 0;
                k += 1;
            }
            if k == len {
                break;
            }
        }
    }
    // every length a label can have, filled with digits, letters, mixed case; one bad character at each end
    for len in 1..=63usize {
        for fill in [b'0', b'a', b'V', b'p'] {
            let mut s = std::vec![fill; len];
            count += 1;
            if let Err(e) = judge(&s) {
                failures.push(e);
            }
            s[len - 1] = b'z';
            count += 1;
            if let Err(e) = judge(&s) {
                failures.push(e);
            }
            s[len - 1] = fill;
            s[0] = 0xC3;
            count += 1;
            if let Err(e) = judge(&s) {
                failures.push(e);
            }
        }
    }
    // a two-octet character at the end (a str slice at a fixed offset would split it)
    for len in 2..=63usize {
        let mut s = std::vec![b'a'; len];
        s[len - 2] = 0xC3;
        s[len - 1] = 0xA9;
        count += 1;
        if let Err(e) = judge(&s) {
            failures.push(e);
        }
        if len < 63 {
            s.push(b'a');
            count += 1;
            if let Err(e) = judge(&s) {
                failures.push(e);
            }
        }
    }
    // real hashes
    for s in ["0p9mhaveqvm6t7vbl5lop2u3t2rp3tom", "2T7B4G4VSA5SMI47K61MV5BV1A22BOJR", "not-a-hash", "*"] {
        count += 1;
        if let Err(e) = judge(s.as_bytes()) {
            failures.push(e);
        }
    }
    std::panic::set_hook(hook);
    if let Some(f) = failures.first() {
        panic!("FAILING INPUT: {} ({} of {} labels misbehave)", f, failures.len(), count);
    }
    std::println!("OK: {} labels", count);
}
