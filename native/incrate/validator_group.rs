// In-crate native tests for private items of dnssec::validator::group (included by the hook at the end of
// /repo/src/dnssec/validator/group.rs under cfg(all(test, nlnetlabs_domain_verif))). Run by /verif/check as
//   RUSTFLAGS="--cfg nlnetlabs_domain_verif" cargo test --offline --lib --features <F> verif_native::<name> -- --exact
use super::*;
use crate::base::iana::Class;
use crate::base::Ttl;
use crate::crypto::sign::{generate, GenerateParams, KeyPair};
use crate::dnssec::sign::keys::SigningKey;
use crate::dnssec::sign::records::Rrset;
use crate::dnssec::sign::signatures::rrsigs::sign_rrset;
use crate::rdata::A;
use core::str::FromStr;
use mock_instant::thread_local::MockClock;

fn n(s: &str) -> Name<Bytes> {
    Name::<Bytes>::from_str(s).unwrap()
}

/// One A record at www.example. with an RRSIG whose validity period is [now + from, now + until] (seconds)
fn signed_group(from: i64, until: i64) -> (Group, SigType, Dnskey<Bytes>) {
    let (sec, public) = generate(&GenerateParams::Ed25519, 256).unwrap();
    let key: SigningKey<Bytes, KeyPair> = SigningKey::new(n("example."), 256, KeyPair::from_bytes(&sec, &public).unwrap());
    let now = Timestamp::now().into_int() as i64;
    let (inc, exp) = (Timestamp::from((now + from) as u32), Timestamp::from((now + until) as u32));
    let a = A::from_octets(192, 0, 2, 1);
    let recs = vec![Record::new(n("www.example."), Class::IN, Ttl::from_secs(3600), a.clone())];
    let sig: SigType = sign_rrset(&key, &Rrset::new_from_owned(&recs).unwrap(), inc, exp).unwrap();
    let group = Group {
        rr_set: vec![Record::new(n("www.example."), Class::IN, Ttl::from_secs(3600), AllRecordData::A(a))],
        sig_set: vec![sig.clone()],
        extra_set: Vec::new(),
        found_duplicate: false,
    };
    let dk = key.dnskey();
    let dnskey = Dnskey::new(dk.flags(), dk.protocol(), dk.algorithm(), Bytes::copy_from_slice(dk.public_key().as_ref())).unwrap();
    (group, sig, dnskey)
}

/// D44: the verdict of check_sig depends on the current time (RFC 4035 5.3.1: now within [inception, expiration]);
/// check_sig_cached must not hand out a verdict computed at another time.
#[tokio::test]
async fn d44_cached_verdict_outlives_signature() {
    MockClock::set_system_time(core::time::Duration::from_secs(1_790_000_000));
    let cache = SigCache::new(10);
    let signer = n("example.");
    // a signature that expires in two seconds
    let (group, sig, dnskey) = signed_group(-100, 2);
    let tag = dnskey.key_tag();
    assert!(group.check_sig_cached(&sig, &signer, &dnskey, &signer, tag, &cache).await, "a valid signature is rejected");
    // a signature that becomes valid in two seconds
    let (group2, sig2, dnskey2) = signed_group(2, 1000);
    let tag2 = dnskey2.key_tag();
    assert!(!group2.check_sig_cached(&sig2, &signer, &dnskey2, &signer, tag2, &cache).await, "a signature that is not valid yet is accepted");
    // four seconds later (the crate's test clock)
    MockClock::advance_system_time(core::time::Duration::from_secs(4));
    assert!(!group.check_sig(&sig, &signer, &dnskey, &signer, tag), "check_sig accepts an expired signature");
    assert!(group2.check_sig(&sig2, &signer, &dnskey2, &signer, tag2), "check_sig rejects a signature within its validity period");
    let late = group.check_sig_cached(&sig, &signer, &dnskey, &signer, tag, &cache).await;
    let late2 = group2.check_sig_cached(&sig2, &signer, &dnskey2, &signer, tag2, &cache).await;
    assert!(!late, "FAILING HISTORY: check_sig_cached accepts a signature 2 s after its expiration time (the verdict computed while it was valid is served from the cache)");
    assert!(late2, "FAILING HISTORY: check_sig_cached rejects a signature 2 s after its inception time (the verdict computed before that is served from the cache)");
}


/// D56 (C17): signature times are serial numbers (RFC 4034 3.1.5; RFC 4035 5.3.1 compares "the validator's notion of the
/// current time" with them). A signature whose validity period crosses the 2^32 wrap of the 32-bit time (inception just
/// below 2^32, expiration just above 0) is valid while the clock is inside the period -- before and after the wrap.
#[tokio::test]
async fn d56_validity_window_across_wrap() {
    // 50 seconds before the 32-bit time wraps
    MockClock::set_system_time(core::time::Duration::from_secs(4_294_967_246));
    let cache = SigCache::new(10);
    let signer = n("example.");
    // valid from 100 s ago until 100 s from now: the expiration time is 50 as a number
    let (group, sig, dnskey) = signed_group(-100, 100);
    assert!(sig.data().expiration().into_int() < 100, "test setup: the expiration time is meant to lie behind the wrap");
    let tag = dnskey.key_tag();
    assert!(group.check_sig(&sig, &signer, &dnskey, &signer, tag),
        "FAILING HISTORY: clock at 2^32 - 50, signature valid [now - 100, now + 100] (expiration 50 after the wrap): check_sig rejects it");
    assert!(group.check_sig_cached(&sig, &signer, &dnskey, &signer, tag, &cache).await,
        "FAILING HISTORY: clock at 2^32 - 50, signature valid [now - 100, now + 100]: check_sig_cached rejects it");
    // a signature that expired 10 s ago and one that starts in 10 s are still refused there
    let (g2, s2, k2) = signed_group(-100, -10);
    assert!(!g2.check_sig(&s2, &signer, &k2, &signer, k2.key_tag()), "an expired signature is accepted near the wrap");
    let (g3, s3, k3) = signed_group(10, 100);
    assert!(!g3.check_sig(&s3, &signer, &k3, &signer, k3.key_tag()), "a signature that is not valid yet is accepted near the wrap");
    std::println!("OK d56: validity periods across the 2^32 wrap are judged in serial arithmetic");
}
