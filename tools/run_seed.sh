#!/bin/sh
# usage: tools/run_seed.sh <seed-id> <property> [tier]   -- apply a seeded change to /repo, run the check, undo
id=$1; prop=$2; tier=${3:-quick}
cd /verif
git -C /repo diff --quiet || { echo "/repo not clean"; exit 3; }
git -C /repo apply /verif/seeded/$id/patch.diff || exit 3
./check $prop --tier $tier > /tmp/seedrun_$id.log 2>&1
rc=$?
git -C /repo checkout -- . 
echo "seed=$id prop=$prop tier=$tier rc=$rc"
grep -E "^VIOLATION|^UNDECIDED|^KNOWN" /tmp/seedrun_$id.log | cut -c1-300
tail -1 /tmp/seedrun_$id.log
exit 0
