#!/usr/bin/env python3
"""Apply every seeded change under /verif/seeded (one at a time) to a scratch worktree of /repo's HEAD, run the check(s)
planned for it against that worktree (VERIF_REPO, see ./check), undo the change, and write seeded/RESULTS.md. /repo
itself is never touched, so this can run while /repo is being worked on. Not part of any registered check; run by hand.
The worktree (SEEDREPO, default /tmp/seedrepo) is created if missing and removed at the end."""
import json, os, re, subprocess, sys
VERIF = os.path.dirname(os.path.dirname(os.path.abspath(__file__)))
plan = json.load(open(os.path.join(VERIF, "seeded", "plan.json")))
only = sys.argv[1:]
rows = []
WT = os.environ.get("SEEDREPO", "/tmp/seedrepo")
head = subprocess.run(["git", "-C", "/repo", "rev-parse", "HEAD"], capture_output=True, text=True).stdout.strip()
if not os.path.isdir(WT):
    subprocess.run(["git", "-C", "/repo", "worktree", "add", "--detach", WT, head], check=True, capture_output=True)
subprocess.run(["git", "-C", WT, "checkout", "-q", "--detach", head], check=True)
subprocess.run(["git", "-C", WT, "checkout", "-q", "--", "."], check=True)
env = dict(os.environ, VERIF_REPO=WT)
for sid in sorted(plan):
    if only and sid not in only:
        continue
    for prop, tier in plan[sid]:
        # follow /repo's HEAD (fix commits made while a batch is running)
        head = subprocess.run(["git", "-C", "/repo", "rev-parse", "HEAD"], capture_output=True, text=True).stdout.strip()
        subprocess.run(["git", "-C", WT, "checkout", "-q", "--", "."])
        subprocess.run(["git", "-C", WT, "checkout", "-q", "--detach", head], check=True)
        if subprocess.run(["git", "-C", WT, "diff", "--quiet"]).returncode != 0:
            sys.exit("scratch worktree not clean")
        a = subprocess.run(["git", "-C", WT, "apply", os.path.join(VERIF, "seeded", sid, "patch.diff")], capture_output=True, text=True)
        if a.returncode != 0:
            rows.append((sid, prop, tier, "patch does not apply", "", ""))
            continue
        try:
            p = subprocess.run(["./check", prop, "--tier", tier], cwd=VERIF, capture_output=True, text=True, timeout=7200, env=env)
            out = p.stdout
            rc = p.returncode
        finally:
            subprocess.run(["git", "-C", WT, "checkout", "--", "."])
        vio = [l for l in out.split("\n") if l.startswith("VIOLATION")]
        und = [l for l in out.split("\n") if l.startswith("UNDECIDED")]
        cex = sum(1 for l in vio if not l.rstrip().endswith("no-failing-input-found"))
        names = []
        for l in vio:
            m = re.search(r"replay=\S*/%s-(.*?)-[0-9a-f]{10}\.json" % prop, l)
            if m:
                names.append(m.group(1))
        verdict = {0: "MISSED (exit 0)", 1: "caught", 2: "undecided (exit 2)"}.get(rc, str(rc))
        rows.append((sid, prop, tier, verdict, ", ".join(names), f"{cex}/{len(vio)} with counterexample" if vio else (und[0][:120] if und else "")))
        print(rows[-1], flush=True)
        with open(os.path.join(VERIF, "seeded", "RESULTS.partial.md"), "a") as pf:
            pf.write("| " + " | ".join(rows[-1]) + " |\n")
with open(os.path.join(VERIF, "seeded", "RESULTS.md"), "a" if only else "w") as f:
    if not only:
        f.write("| seed | check | tier | verdict | failing units/harnesses | counterexamples |\n|---|---|---|---|---|---|\n")
    for r in rows:
        f.write("| " + " | ".join(r) + " |\n")
if not os.environ.get("SEEDREPO_KEEP"):
    subprocess.run(["git", "-C", "/repo", "worktree", "remove", "--force", WT])
