#!/usr/bin/env python3
"""Regenerate the generated tables of DESIGN.md (between BEGIN/END markers) from the registry, the evidence files
and seeded/RESULTS.md."""
import json, os, re, sys
VERIF = os.path.dirname(os.path.dirname(os.path.abspath(__file__)))
sys.path.insert(0, os.path.join(VERIF, "lib"))
import registry


def coverage():
    rows = ["| id | level | Verus units (functions under contract) | Kani harnesses | native replays | native search (bounded exploration) |", "|---|---|---|---|---|---|"]
    for pid, P in sorted(registry.PROPS.items()):
        try:
            ev = json.load(open(os.path.join(VERIF, "evidence", pid + ".json")))
        except Exception:
            ev = {}
        fu = ev.get("coverage", {}).get("functions_under_contract", [])
        by = {}
        for f in fu:
            if f.get("backend") == "verus" and f.get("status") == "under contract":
                by.setdefault(f["unit"], []).append(f["function"])
        units = "; ".join(f"`{u}` ({len(by.get(u, []))})" for u in P.get("units", [])) or "—"
        kc = [h for h in P.get("kani", []) if h["kind"] == "complete"]
        kb = [h for h in P.get("kani", []) if h["kind"] != "complete"]
        k = []
        if kc:
            k.append(f"{len(kc)} K-complete")
        if kb:
            k.append(f"{len(kb)} K-bounded")
        inc = sorted({h["group"] for h in P.get("kani", []) if h["group"].startswith("repo_")})
        if inc:
            k.append("in-crate: " + ", ".join(inc))
        rp = ", ".join((r.get("finding") or r["bin"]) + ("*" if r.get("expect") == "fail" else "") for r in P.get("replays", [])) or "—"
        inr = [t for t in P.get("incrate_native", [])]
        rp2 = [((t.get("finding") or t["test"].split("::")[-1]) + " (in-crate)") for t in inr if t.get("kind") != "search"]
        if rp2:
            rp = (rp + ", " if rp != "—" else "") + ", ".join(rp2)
        se = []
        if P.get("vx_search"):
            se.append("`" + P["vx_search"]["bin"] + "`")
        se += ["`" + e["bin"] + "`" for e in P.get("extra_searches", [])]
        se += ["`" + t["test"].split("::")[-1] + "` (in-crate)" for t in inr if t.get("kind") == "search"]
        level = P["level"] + (" (partial)" if P.get("level_prefix") else "")
        rows.append(f"| {pid} | {level} | {units} | {', '.join(k) or '—'} | {rp} | {', '.join(se) or '—'} |")
    rows.append("")
    rows.append("(`*` = open known finding, expected to fail.) Functions per unit, by name, are in `evidence/<id>.json → coverage.functions_under_contract`.")
    return "\n".join(rows)


def seeded():
    res = {}
    p = os.path.join(VERIF, "seeded", "RESULTS.md")
    if os.path.exists(p):
        for l in open(p):
            c = [x.strip() for x in l.strip().strip("|").split("|")]
            if len(c) >= 6 and re.match(r"C\d\d-", c[0]):
                res.setdefault(c[0], []).append(c[1:])
    rows = ["| seed | change | check (tier) | verdict | failing obligations / harnesses | counterexample |", "|---|---|---|---|---|---|"]
    sd = os.path.join(VERIF, "seeded")
    for sid in sorted((d for d in os.listdir(sd) if re.match(r"C\d\d-\d+$", d)), key=lambda d: (d.split("-")[0], int(d.split("-")[1]))):
        m = json.load(open(os.path.join(sd, sid, "meta.json")))
        what = re.sub(r"\s+", " ", m.get("what", "")).replace("|", "\\|")
        if len(what) > 170:
            what = what[:167] + "..."
        rr = res.get(sid) or [["?", "", "not run", "", ""]]
        for i, r in enumerate(rr):
            rows.append(f"| {sid if i == 0 else ''} | {what if i == 0 else ''} | {r[0]} ({r[1]}) | {r[2]} | {r[3]} | {r[4]} |")
    return "\n".join(rows)


def main():
    p = os.path.join(VERIF, "DESIGN.md")
    s = open(p).read()
    for name, fn in (("coverage", coverage), ("seeded", seeded)):
        a, b = f"<!-- BEGIN:{name} -->", f"<!-- END:{name} -->"
        if a in s and b in s:
            i, j = s.index(a) + len(a), s.index(b)
            s = s[:i] + "\n" + fn() + "\n" + s[j:]
    open(p, "w").write(s)


main()
