//! vxextract: locate items of a real Rust source file by syntactic path and
//! print byte ranges (JSON) that the assembler (`vxlib.py`) uses to slice the
//! *original text*.  Nothing is pretty-printed from the AST.
//!
//! usage: vxextract <file.rs> [--mono=A,B,..] <path>...
//!
//! path grammar (segments separated by `/` for modules):
//!   [mod a/ mod b/] fn NAME | struct NAME | enum NAME | const NAME | static NAME
//!                 | type NAME | trait NAME | impl TYPE[@TRAIT][#K]
//!                 | TYPE::NAME[@TRAIT][#K]        (method or assoc const in an impl)
//!                 | trait TYPE::NAME              (method declared/provided in a trait)
use proc_macro2::{Span, TokenStream, TokenTree};
use quote::ToTokens;
use syn::spanned::Spanned;
use syn::visit::Visit;

fn br(s: Span) -> (usize, usize) {
    let r = s.byte_range();
    (r.start, r.end)
}

fn jstr(s: &str) -> String {
    let mut o = String::from("\"");
    for c in s.chars() {
        match c {
            '"' => o.push_str("\\\""),
            '\\' => o.push_str("\\\\"),
            '\n' => o.push_str("\\n"),
            '\t' => o.push_str("\\t"),
            '\r' => o.push_str("\\r"),
            c if (c as u32) < 0x20 => o.push_str(&format!("\\u{:04x}", c as u32)),
            c => o.push(c),
        }
    }
    o.push('"');
    o
}

fn span_json(s: Span) -> String {
    let (a, b) = br(s);
    format!("[{},{}]", a, b)
}

fn last_ident_of_type(t: &syn::Type) -> Option<String> {
    match t {
        syn::Type::Path(p) => p.path.segments.last().map(|s| s.ident.to_string()),
        syn::Type::Reference(r) => last_ident_of_type(&r.elem),
        syn::Type::Paren(p) => last_ident_of_type(&p.elem),
        syn::Type::Group(p) => last_ident_of_type(&p.elem),
        syn::Type::Slice(_) => Some("[]".into()),
        _ => None,
    }
}

fn collect_idents(ts: TokenStream, names: &[String], out: &mut Vec<(String, usize, usize)>) {
    for tt in ts {
        match tt {
            TokenTree::Group(g) => collect_idents(g.stream(), names, out),
            TokenTree::Ident(i) => {
                let s = i.to_string();
                if names.iter().any(|n| *n == s) {
                    let (a, b) = br(i.span());
                    out.push((s, a, b));
                }
            }
            _ => {}
        }
    }
}

// ---------------------------------------------------------------- loops etc.

#[derive(Default)]
struct BodyInfo {
    loops: Vec<String>,
    let_loops: Vec<String>,
    ref_pats: Vec<String>,
    closures: usize,
    wilds: Vec<String>,
    or_guards: Vec<String>,
    guard_wilds: Vec<String>,
}

struct BreakCollector<'a> {
    label: Option<String>,
    depth: usize,
    out: &'a mut Vec<String>,
}
impl<'a, 'ast> Visit<'ast> for BreakCollector<'a> {
    fn visit_expr_break(&mut self, b: &'ast syn::ExprBreak) {
        let targets_us = match (&b.label, &self.label) {
            (Some(l), Some(me)) => l.ident.to_string() == *me,
            (Some(_), None) => false,
            (None, _) => self.depth == 0,
        };
        if targets_us {
            let v = match &b.expr {
                Some(e) => span_json(e.span()),
                None => "null".into(),
            };
            self.out.push(format!("{{\"span\":{},\"value\":{}}}", span_json(b.span()), v));
        }
        syn::visit::visit_expr_break(self, b);
    }
    fn visit_expr_loop(&mut self, l: &'ast syn::ExprLoop) {
        self.depth += 1;
        syn::visit::visit_expr_loop(self, l);
        self.depth -= 1;
    }
    fn visit_expr_while(&mut self, l: &'ast syn::ExprWhile) {
        self.depth += 1;
        syn::visit::visit_expr_while(self, l);
        self.depth -= 1;
    }
    fn visit_expr_for_loop(&mut self, l: &'ast syn::ExprForLoop) {
        self.depth += 1;
        syn::visit::visit_expr_for_loop(self, l);
        self.depth -= 1;
    }
    fn visit_expr_closure(&mut self, _c: &'ast syn::ExprClosure) {}
}

struct RefPatCollector<'a> {
    scope: String,
    out: &'a mut Vec<String>,
}
impl<'a, 'ast> Visit<'ast> for RefPatCollector<'a> {
    fn visit_pat_reference(&mut self, p: &'ast syn::PatReference) {
        if let syn::Pat::Ident(pi) = &*p.pat {
            if pi.by_ref.is_none() && pi.subpat.is_none() && p.mutability.is_none() {
                self.out.push(format!(
                    "{{\"span\":{},\"ident\":{},\"mut\":{},{}}}",
                    span_json(p.span()),
                    jstr(&pi.ident.to_string()),
                    pi.mutability.is_some(),
                    self.scope
                ));
                return;
            }
        }
        syn::visit::visit_pat_reference(self, p);
    }
}

struct BodyVisitor<'a> {
    info: &'a mut BodyInfo,
}
impl<'a> BodyVisitor<'a> {
    fn ref_pats(&mut self, pat: &syn::Pat, scope: String) {
        let mut c = RefPatCollector { scope, out: &mut self.info.ref_pats };
        c.visit_pat(pat);
    }
}
fn block_scope(b: &syn::Block) -> String {
    format!("\"scope\":{},\"scope_is_block\":true", span_json(b.span()))
}
impl<'a, 'ast> Visit<'ast> for BodyVisitor<'a> {
    fn visit_expr_loop(&mut self, l: &'ast syn::ExprLoop) {
        let (a, b) = br(l.body.span());
        self.info.loops.push(format!(
            "{{\"kind\":\"loop\",\"start\":{},\"body_open\":{},\"body_close\":{}}}",
            br(l.span()).0, a, b - 1
        ));
        syn::visit::visit_expr_loop(self, l);
    }
    fn visit_expr_while(&mut self, l: &'ast syn::ExprWhile) {
        let (a, b) = br(l.body.span());
        self.info.loops.push(format!(
            "{{\"kind\":\"while\",\"start\":{},\"body_open\":{},\"body_close\":{}}}",
            br(l.span()).0, a, b - 1
        ));
        if let syn::Expr::Let(el) = &*l.cond {
            self.ref_pats(&el.pat, block_scope(&l.body));
        }
        syn::visit::visit_expr_while(self, l);
    }
    fn visit_expr_for_loop(&mut self, l: &'ast syn::ExprForLoop) {
        let (a, b) = br(l.body.span());
        self.info.loops.push(format!(
            "{{\"kind\":\"for\",\"start\":{},\"body_open\":{},\"body_close\":{},\"pat\":{},\"expr\":{},\"label\":{}}}",
            br(l.span()).0, a, b - 1, span_json(l.pat.span()), span_json(l.expr.span()), l.label.is_some()
        ));
        self.ref_pats(&l.pat, block_scope(&l.body));
        syn::visit::visit_expr_for_loop(self, l);
    }
    fn visit_expr_if(&mut self, i: &'ast syn::ExprIf) {
        if let syn::Expr::Let(el) = &*i.cond {
            self.ref_pats(&el.pat, block_scope(&i.then_branch));
        }
        syn::visit::visit_expr_if(self, i);
    }
    fn visit_arm(&mut self, a: &'ast syn::Arm) {
        if let (syn::Pat::Or(po), Some((_, g))) = (&a.pat, &a.guard) {
            let alts: Vec<String> = po.cases.iter().map(|c| span_json(c.span())).collect();
            let comma = match &a.comma { Some(c) => br(c.span()).1 as i64, None => -1 };
            self.info.or_guards.push(format!(
                "{{\"arm\":{},\"alts\":[{}],\"guard\":{},\"body\":{},\"comma_end\":{}}}",
                span_json(a.span()), alts.join(","), span_json(g.span()), span_json(a.body.span()), comma
            ));
        }
        let scope = match &*a.body {
            syn::Expr::Block(b) if b.attrs.is_empty() && b.label.is_none() => block_scope(&b.block),
            e => format!("\"scope\":{},\"scope_is_block\":false", span_json(e.span())),
        };
        let scope = format!("{},\"guard\":{}", scope, a.guard.is_some());
        self.ref_pats(&a.pat, scope);
        syn::visit::visit_arm(self, a);
    }
    fn visit_expr_match(&mut self, m: &'ast syn::ExprMatch) {
        // `match x { P if g => e1, _ => e2 }`
        if m.arms.len() == 2 {
            let (a0, a1) = (&m.arms[0], &m.arms[1]);
            if let (Some((if_tok, g)), None, syn::Pat::Wild(_)) = (&a0.guard, &a1.guard, &a1.pat) {
                self.info.guard_wilds.push(format!(
                    "{{\"pat_end\":{},\"if_start\":{},\"guard\":{},\"body\":{},\"else_body\":{}}}",
                    br(a0.pat.span()).1, br(if_tok.span()).0, span_json(g.span()), span_json(a0.body.span()), span_json(a1.body.span())
                ));
            }
        }
        syn::visit::visit_expr_match(self, m);
    }
    fn visit_expr_closure(&mut self, c: &'ast syn::ExprClosure) {
        self.info.closures += 1;
        for inp in &c.inputs {
            let p = match inp {
                syn::Pat::Type(t) => &*t.pat,
                p => p,
            };
            if let syn::Pat::Wild(w) = p {
                self.info.wilds.push(span_json(w.span()));
            }
        }
        syn::visit::visit_expr_closure(self, c);
    }
    fn visit_local(&mut self, l: &'ast syn::Local) {
        if let Some(init) = &l.init {
            if let syn::Expr::Loop(lp) = &*init.expr {
                let mut breaks = Vec::new();
                let mut bc = BreakCollector {
                    label: lp.label.as_ref().map(|l| l.name.ident.to_string()),
                    depth: 0,
                    out: &mut breaks,
                };
                bc.visit_block(&lp.body);
                self.info.let_loops.push(format!(
                    "{{\"local\":{},\"pat\":{},\"loop\":{},\"breaks\":[{}]}}",
                    span_json(l.span()),
                    span_json(l.pat.span()),
                    span_json(lp.span()),
                    breaks.join(",")
                ));
            }
        }
        syn::visit::visit_local(self, l);
    }
}

// ---------------------------------------------------------------- items

fn gparams_json(g: &syn::Generics) -> String {
    let ps: Vec<String> = g
        .params
        .iter()
        .map(|p| {
            let name = match p {
                syn::GenericParam::Type(t) => t.ident.to_string(),
                syn::GenericParam::Lifetime(l) => format!("'{}", l.lifetime.ident),
                syn::GenericParam::Const(c) => c.ident.to_string(),
            };
            format!("{{\"name\":{},\"span\":{}}}", jstr(&name), span_json(p.span()))
        })
        .collect();
    let (lt, gt) = match (&g.lt_token, &g.gt_token) {
        (Some(l), Some(r)) => (br(l.span()).0 as i64, br(r.span()).1 as i64),
        _ => (-1, -1),
    };
    format!("{{\"lt\":{},\"gt\":{},\"params\":[{}]}}", lt, gt, ps.join(","))
}

fn attrs_json(attrs: &[syn::Attribute]) -> String {
    let v: Vec<String> = attrs.iter().map(|a| span_json(a.span())).collect();
    format!("[{}]", v.join(","))
}

fn vis_json(v: &syn::Visibility) -> String {
    match v {
        syn::Visibility::Inherited => "null".into(),
        _ => span_json(v.span()),
    }
}

fn fn_json(
    whole: Span,
    attrs: &[syn::Attribute],
    vis: &syn::Visibility,
    sig: &syn::Signature,
    block: Option<&syn::Block>,
    mono: &[String],
    tokens: TokenStream,
) -> String {
    let mut info = BodyInfo::default();
    if let Some(b) = block {
        let mut v = BodyVisitor { info: &mut info };
        v.visit_block(b);
    }
    let ret = match &sig.output {
        syn::ReturnType::Default => "null".into(),
        syn::ReturnType::Type(_, t) => span_json(t.span()),
    };
    let stmts: Vec<String> = match block {
        Some(b) => b.stmts.iter().map(|st| span_json(st.span())).collect(),
        None => Vec::new(),
    };
    let (body_open, body_close) = match block {
        Some(b) => {
            let (a, e) = br(b.span());
            (a as i64, e as i64 - 1)
        }
        None => (-1, -1),
    };
    let mut ids = Vec::new();
    collect_idents(tokens, mono, &mut ids);
    let ids: Vec<String> = ids.iter().map(|(n, a, b)| format!("[{},{},{}]", jstr(n), a, b)).collect();
    for a in sig.inputs.iter() {
        if let syn::FnArg::Typed(t) = a {
            if let syn::Pat::Wild(w) = &*t.pat {
                info.wilds.push(span_json(w.span()));
            }
        }
    }
    let params: Vec<String> = sig
        .inputs
        .iter()
        .map(|a| match a {
            syn::FnArg::Receiver(r) => format!("{{\"self\":true,\"span\":{}}}", span_json(r.span())),
            syn::FnArg::Typed(t) => format!(
                "{{\"self\":false,\"span\":{},\"pat\":{},\"ty\":{}}}",
                span_json(t.span()),
                span_json(t.pat.span()),
                span_json(t.ty.span())
            ),
        })
        .collect();
    let generics = if sig.generics.params.is_empty() { "null".into() } else { span_json(sig.generics.span()) };
    let wh = match &sig.generics.where_clause {
        Some(w) => span_json(w.span()),
        None => "null".into(),
    };
    let (s, e) = br(whole);
    format!(
        "{{\"kind\":\"fn\",\"name\":{},\"start\":{},\"end\":{},\"attrs\":{},\"vis\":{},\"sig\":{},\"ret\":{},\"generics\":{},\"gparams\":{},\"where\":{},\"params\":[{}],\"body_open\":{},\"body_close\":{},\"stmts\":[{}],\"loops\":[{}],\"let_loops\":[{}],\"ref_pats\":[{}],\"wilds\":[{}],\"or_guards\":[{}],\"guard_wilds\":[{}],\"closures\":{},\"idents\":[{}]}}",
        jstr(&sig.ident.to_string()),
        s,
        e,
        attrs_json(attrs),
        vis_json(vis),
        span_json(sig.span()),
        ret,
        generics,
        gparams_json(&sig.generics),
        wh,
        params.join(","),
        body_open,
        body_close,
        stmts.join(","),
        info.loops.join(","),
        info.let_loops.join(","),
        info.ref_pats.join(","),
        info.wilds.join(","),
        info.or_guards.join(","),
        info.guard_wilds.join(","),
        info.closures,
        ids.join(",")
    )
}

fn fields_json(fields: &syn::Fields) -> String {
    let v: Vec<String> = fields
        .iter()
        .map(|f| {
            format!(
                "{{\"attrs\":{},\"vis\":{},\"start\":{}}}",
                attrs_json(&f.attrs),
                vis_json(&f.vis),
                // start of the field proper (after attrs and vis): ident or type
                match &f.ident {
                    Some(i) => br(i.span()).0,
                    None => br(f.ty.span()).0,
                }
            )
        })
        .collect();
    format!("[{}]", v.join(","))
}

fn generic_item_json(kind: &str, name: &str, whole: Span, attrs: &[syn::Attribute], vis: &syn::Visibility, extra: String, mono: &[String], tokens: TokenStream) -> String {
    let (s, e) = br(whole);
    let mut ids = Vec::new();
    collect_idents(tokens, mono, &mut ids);
    let ids: Vec<String> = ids.iter().map(|(n, a, b)| format!("[{},{},{}]", jstr(n), a, b)).collect();
    format!(
        "{{\"kind\":{},\"name\":{},\"start\":{},\"end\":{},\"attrs\":{},\"vis\":{}{},\"idents\":[{}]}}",
        jstr(kind),
        jstr(name),
        s,
        e,
        attrs_json(attrs),
        vis_json(vis),
        extra,
        ids.join(",")
    )
}

fn variants_attrs(e: &syn::ItemEnum) -> String {
    let mut v = Vec::new();
    for var in &e.variants {
        for a in &var.attrs {
            v.push(span_json(a.span()));
        }
        for f in var.fields.iter() {
            for a in &f.attrs {
                v.push(span_json(a.span()));
            }
        }
    }
    format!(",\"inner_attrs\":[{}]", v.join(","))
}

fn find_in_items(items: &[syn::Item], segs: &[&str], mono: &[String]) -> Result<String, String> {
    let seg = segs[0].trim();
    if let Some(m) = seg.strip_prefix("mod ") {
        for it in items {
            if let syn::Item::Mod(im) = it {
                if im.ident == m.trim() {
                    if let Some((_, its)) = &im.content {
                        return find_in_items(its, &segs[1..], mono);
                    }
                }
            }
        }
        return Err(format!("module {} not found", m));
    }
    // parse options
    let (seg, k) = match seg.rsplit_once('#') {
        Some((a, b)) => (a.trim(), b.trim().parse::<usize>().map_err(|e| e.to_string())?),
        None => (seg, 0usize),
    };
    let (seg, tr) = match seg.rsplit_once('@') {
        Some((a, b)) => (a.trim(), Some(b.trim().to_string())),
        None => (seg, None),
    };
    let mut matches: Vec<String> = Vec::new();
    let simple = |kw: &str| seg.strip_prefix(kw).map(|s| s.trim().to_string());
    if let Some(n) = simple("fn ") {
        for it in items {
            if let syn::Item::Fn(f) = it {
                if f.sig.ident == n {
                    matches.push(fn_json(f.span(), &f.attrs, &f.vis, &f.sig, Some(&f.block), mono, f.to_token_stream()));
                }
            }
        }
    } else if let Some(n) = simple("struct ") {
        for it in items {
            if let syn::Item::Struct(s) = it {
                if s.ident == n {
                    let extra = format!(",\"fields\":{},\"gparams\":{}", fields_json(&s.fields), gparams_json(&s.generics));
                    matches.push(generic_item_json("struct", &n, s.span(), &s.attrs, &s.vis, extra, mono, s.to_token_stream()));
                }
            }
        }
    } else if let Some(n) = simple("enum ") {
        for it in items {
            if let syn::Item::Enum(s) = it {
                if s.ident == n {
                    let extra = format!("{},\"gparams\":{}", variants_attrs(s), gparams_json(&s.generics));
                    matches.push(generic_item_json("enum", &n, s.span(), &s.attrs, &s.vis, extra, mono, s.to_token_stream()));
                }
            }
        }
    } else if let Some(n) = simple("const ") {
        for it in items {
            if let syn::Item::Const(s) = it {
                if s.ident == n {
                    matches.push(generic_item_json("const", &n, s.span(), &s.attrs, &s.vis, String::new(), mono, s.to_token_stream()));
                }
            }
        }
    } else if let Some(n) = simple("static ") {
        for it in items {
            if let syn::Item::Static(s) = it {
                if s.ident == n {
                    matches.push(generic_item_json("static", &n, s.span(), &s.attrs, &s.vis, String::new(), mono, s.to_token_stream()));
                }
            }
        }
    } else if let Some(n) = simple("type ") {
        for it in items {
            if let syn::Item::Type(s) = it {
                if s.ident == n {
                    matches.push(generic_item_json("type", &n, s.span(), &s.attrs, &s.vis, String::new(), mono, s.to_token_stream()));
                }
            }
        }
    } else if let Some(n) = simple("trait ") {
        // `trait T` or `trait T::f`
        let (tn, fnname) = match n.split_once("::") {
            Some((a, b)) => (a.trim().to_string(), Some(b.trim().to_string())),
            None => (n.clone(), None),
        };
        for it in items {
            if let syn::Item::Trait(s) = it {
                if s.ident == tn {
                    match &fnname {
                        None => matches.push(generic_item_json("trait", &tn, s.span(), &s.attrs, &s.vis, String::new(), mono, s.to_token_stream())),
                        Some(f) => {
                            for ti in &s.items {
                                if let syn::TraitItem::Fn(tf) = ti {
                                    if tf.sig.ident == f {
                                        matches.push(fn_json(tf.span(), &tf.attrs, &syn::Visibility::Inherited, &tf.sig, tf.default.as_ref(), mono, tf.to_token_stream()));
                                    }
                                }
                            }
                        }
                    }
                }
            }
        }
    } else if let Some(n) = simple("impl ") {
        for it in items {
            if let syn::Item::Impl(im) = it {
                if last_ident_of_type(&im.self_ty).as_deref() == Some(n.as_str()) && trait_matches(im, &tr) {
                    let (bo, bc) = (br(im.brace_token.span.open()).0, br(im.brace_token.span.close()).0);
                    let extra = format!(",\"body_open\":{},\"body_close\":{}", bo, bc);
                    matches.push(generic_item_json("impl", &n, im.span(), &im.attrs, &syn::Visibility::Inherited, extra, mono, im.to_token_stream()));
                }
            }
        }
    } else if let Some((ty, name)) = seg.split_once("::") {
        let (ty, name) = (ty.trim(), name.trim());
        for it in items {
            if let syn::Item::Impl(im) = it {
                if last_ident_of_type(&im.self_ty).as_deref() == Some(ty) && trait_matches(im, &tr) {
                    for ii in &im.items {
                        match ii {
                            syn::ImplItem::Fn(f) if f.sig.ident == name => {
                                matches.push(fn_json(f.span(), &f.attrs, &f.vis, &f.sig, Some(&f.block), mono, f.to_token_stream()));
                            }
                            syn::ImplItem::Const(c) if c.ident == name => {
                                matches.push(generic_item_json("const", name, c.span(), &c.attrs, &c.vis, String::new(), mono, c.to_token_stream()));
                            }
                            _ => {}
                        }
                    }
                }
            }
        }
    } else {
        return Err(format!("cannot parse path segment `{}`", seg));
    }
    if matches.is_empty() {
        return Err(format!("`{}` not found", segs.join("/")));
    }
    if k >= matches.len() {
        return Err(format!("`{}`: index {} out of {} matches", segs.join("/"), k, matches.len()));
    }
    if matches.len() > 1 && !segs[0].contains('#') {
        return Err(format!("`{}` ambiguous: {} matches (use @Trait or #k)", segs.join("/"), matches.len()));
    }
    Ok(matches.swap_remove(k))
}

fn trait_matches(im: &syn::ItemImpl, tr: &Option<String>) -> bool {
    match (tr, &im.trait_) {
        (None, None) => true,
        (None, Some(_)) => false,
        (Some(t), None) => t == "-",
        (Some(t), Some((_, p, _))) => {
            // match on last segment ident, or on the whole path text without spaces
            let last = p.segments.last().map(|s| s.ident.to_string()).unwrap_or_default();
            let full: String = p.to_token_stream().to_string().chars().filter(|c| !c.is_whitespace()).collect();
            *t == last || *t == full || t == "*"
        }
    }
}

fn main() {
    let mut args: Vec<String> = std::env::args().skip(1).collect();
    if args.is_empty() {
        eprintln!("usage: vxextract <file.rs> [--mono=A,B] <path>...");
        std::process::exit(2);
    }
    let file = args.remove(0);
    let mut mono: Vec<String> = Vec::new();
    args.retain(|a| {
        if let Some(m) = a.strip_prefix("--mono=") {
            mono.extend(m.split(',').filter(|s| !s.is_empty()).map(|s| s.to_string()));
            false
        } else {
            true
        }
    });
    let src = match std::fs::read_to_string(&file) {
        Ok(s) => s,
        Err(e) => {
            println!("{{\"error\":{}}}", jstr(&format!("cannot read {}: {}", file, e)));
            std::process::exit(0);
        }
    };
    let ast = match syn::parse_file(&src) {
        Ok(a) => a,
        Err(e) => {
            println!("{{\"error\":{}}}", jstr(&format!("parse error in {}: {}", file, e)));
            std::process::exit(0);
        }
    };
    let mut out = Vec::new();
    for p in &args {
        let segs: Vec<&str> = p.split('/').collect();
        match find_in_items(&ast.items, &segs, &mono) {
            Ok(j) => out.push(format!("{{\"path\":{},\"item\":{}}}", jstr(p), j)),
            Err(e) => out.push(format!("{{\"path\":{},\"error\":{}}}", jstr(p), jstr(&e))),
        }
    }
    println!("{{\"file\":{},\"len\":{},\"items\":[{}]}}", jstr(&file), src.len(), out.join(","));
}
