#!/bin/bash
# usage: tools/confirm_seed.sh <round-dir e.g. /tmp/seed6_C11> <worktree e.g. /tmp/wt6_C11> <i> <seed-id e.g. C11-6>
# Confirms a sub-agent's seeded change in its scratch worktree (clean tree: demo exits 0; with the patch: the pinned
# suite stays green and the demo fails) and, if confirmed, records it under /verif/seeded/<seed-id>/.
set -u
rd=$1; wt=$2; i=$3; id=$4
export CARGO_NET_OFFLINE=true CARGO_TARGET_DIR=$wt/target
d=$rd/$i
[ -f $d/patch.diff ] || { echo "no patch in $d"; exit 3; }
git -C $wt checkout -q -- . ; git -C $wt status --short | grep -v '^??' && { echo "worktree not clean"; exit 3; }
demo=$rd/demo_crate
[ -d $d/demo_crate ] && demo=$d/demo_crate
[ -f $d/demo.rs ] && cp $d/demo.rs $demo/src/main.rs
run_demo() { (cd $demo && timeout 600 cargo run --offline -q 2>&1 | tail -3; exit ${PIPESTATUS[0]}); }
out0=$(run_demo); rc0=$?
git -C $wt apply $d/patch.diff || { echo "patch does not apply"; exit 3; }
tests=$(cd $wt && cargo test --offline --workspace 2>&1 | grep -E "^test result|warning: unused|^error" | head -5)
out1=$(run_demo); rc1=$?
git -C $wt checkout -q -- .
echo "== $id: demo clean rc=$rc0 | patched rc=$rc1"
echo "$tests"
echo "clean:   $(echo "$out0" | tail -1 | cut -c1-200)"
echo "patched: $(echo "$out1" | tail -1 | cut -c1-200)"
libok=$(echo "$tests" | grep -c "171 passed; 0 failed")
if [ $rc0 -eq 0 ] && [ $rc1 -ne 0 ] && [ $libok -ge 1 ] && ! echo "$tests" | grep -q "^error"; then
  mkdir -p /verif/seeded/$id
  cp $d/patch.diff /verif/seeded/$id/patch.diff
  [ -f $d/demo.rs ] && cp $d/demo.rs /verif/seeded/$id/demo.rs
  cp $demo/Cargo.toml /verif/seeded/$id/demo_Cargo.toml
  python3 - "$d/meta.json" "/verif/seeded/$id/meta.json" "$rc0" "$rc1" "$(echo "$tests" | tr '\n' ';')" <<'EOF'
import json,sys
src,dst,rc0,rc1,tests=sys.argv[1:6]
try: m=json.load(open(src))
except Exception as e: m={"meta_unreadable": str(e)}
m["round"]=int(__import__("os").environ.get("SEED_ROUND","7"))
m["confirmed_by_me"]={"tests": tests, "demo_exit_without_patch": rc0, "demo_exit_with_patch": rc1,
  "how": "tools/confirm_seed.sh in the sub-agent's scratch worktree: clean tree -> demo exit 0; git apply patch.diff -> cargo test --offline --workspace green (171 lib tests), demo exit non-zero; tree restored"}
json.dump(m,open(dst,"w"),indent=1)
EOF
  echo "CONFIRMED -> /verif/seeded/$id"
else
  echo "NOT CONFIRMED"
fi
