#!/usr/bin/env python3
"""Regenerate MANIFEST.json from lib/registry.py (claimed checks) and the not-applicable table below."""
import json, os, sys
VERIF = os.path.dirname(os.path.dirname(os.path.abspath(__file__)))
sys.path.insert(0, os.path.join(VERIF, "lib"))
import registry

NA = {
    "C19": "Both installed tools fail on the new-API codec: its parsers are written with slice patterns (`[0, ref rest @ ..]`), which Verus rejects, and a CBMC differential harness of the established and the new name parser on 4 symbolic octets does not finish in 20 min (256-octet name buffers, memcpy with symbolic sizes). One disagreement found by reading is demonstrated natively (replay_new/src/bin/d11_pointer_into_own_segment.rs: a pointer into its own segment is followed by the old parser and rejected by the new one) and described in DESIGN.md; no check is claimed.",
    "C08": "RFC 1034/4592 answer function over lock-protected hash-map trees (Arc/RwLock/HashMap/dyn walkers) and update histories; no contract in reach of Verus or Kani expresses or decides it (DESIGN.md section 4, C08)",
}
HOOK_COMMITS = [l.split()[0] for l in __import__("subprocess").check_output(["git", "-C", "/repo", "log", "--format=%h %s", "--grep", "^verification hook"]).decode().splitlines()]
NOT_YET = "check not built yet (DESIGN.md section 8 build order); nothing is claimed on the strength of the plan alone"

props = [json.loads(l) for l in open(os.path.join(VERIF, "properties.jsonl"))]
old = json.load(open(os.path.join(VERIF, "MANIFEST.json")))
checks = []
for p in props:
    pid = p["id"]
    if pid not in registry.PROPS:
        continue
    P = registry.PROPS[pid]
    be = []
    if P.get("units"):
        be.append("vx")
    if P.get("kani"):
        be.append("kh")
    checks.append({
        "property_id": pid,
        "quick_cmd": f"./check {pid}",
        "thorough_cmd": f"./check {pid} --tier thorough",
        "evidence_file": f"evidence/{pid}.json",
        "replay_cmd_template": f"./check {pid} --replay {{path}}",
        "engine": "+".join(be),
        "level_claimed": {"category": P["level"], "text": P.get("level_prefix", "") + (P.get("level_text") or P["explanation"]), "design_ref": f"DESIGN.md section 4, {pid}"},
        "level_note": P.get("level_note") or ("Trusted: Verus/Z3, Kani/CBMC, the extractor's logged edit list, prelude models of dependencies (listed in evidence assumptions). Not covered: " + P.get("not_covered", "")),
        "technique": P.get("technique") or "contract-based deductive verification: Verus contracts on functions extracted from /repo each run, lemmas over the contracts; Kani complete/bounded harnesses on the compiled crate for what Verus cannot parse and for counterexamples",
    })
na = []
for p in props:
    pid = p["id"]
    if pid in registry.PROPS:
        continue
    na.append({"property_id": pid, "reason": NA.get(pid, NOT_YET)})
served = lambda e: [c["property_id"] for c in checks if e in c["engine"]]
m = {
    "version": 1,
    "setup_cmd": "./setup.sh",
    "hooks": {**old["hooks"], "source_commits": HOOK_COMMITS, "add_only": True,
              "guard": "cfg(kani) for the Kani harness modules; cfg(all(test, nlnetlabs_domain_verif)) for the in-crate native test modules",
              "enable": "cargo kani sets --cfg kani (in-crate harness modules are included by #[cfg(kani)] mod verif_kani { include!(\"/verif/kani/incrate/<file>.rs\"); }); the in-crate native tests (#[cfg(all(test, nlnetlabs_domain_verif))] mod verif_native { include!(\"/verif/native/incrate/<file>.rs\"); } in dnssec/validator/group.rs and nsec.rs) are built by ./check with RUSTFLAGS=\"--cfg nlnetlabs_domain_verif\" cargo test --lib --features bytes,ring,unstable-sign,unstable-validator,unstable-stelline,unstable-zonetree,tokio-stream,net; no flag is needed for the Verus route", "baseline_off_cmd": "cd /repo && cargo test --workspace --no-fail-fast --offline"},
    "engines": [
        {"name": "vx", "path": "lib/vxlib.py", "serves_properties": served("vx"),
         "kind_free_text": "Verus 0.2026.09.13 on functions extracted mechanically from /repo on every run (tools/vxextract + units/*/unit.vrs)"},
        {"name": "kh", "path": "lib/khlib.py", "serves_properties": served("kh"),
         "kind_free_text": "Kani 0.68/CBMC harness crates under kani/ with a path dependency on /repo; complete (loop-free or type-bounded, full-domain) or bounded (labelled) harnesses; counterexamples replayed natively with cargo kani playback"},
    ],
    "checks": checks,
    "notes": "See DESIGN.md. ./check <id> exits 0 (held), 1 (VIOLATION line), 2 (UNDECIDED: machinery could not decide, never an alarm).",
    "not_applicable": na,
}
json.dump(m, open(os.path.join(VERIF, "MANIFEST.json"), "w"), indent=1)
print("checks:", [c["property_id"] for c in checks], "n/a:", len(na))
