#!/usr/bin/env python3
"""Build seeded/RESULTS.md from seeded/RESULTS.partial.md (rows appended by tools/run_all_seeds.py over several
runs): the latest row per (seed, check) wins."""
import os, re
VERIF = os.path.dirname(os.path.dirname(os.path.abspath(__file__)))
rows = {}
for l in open(os.path.join(VERIF, "seeded", "RESULTS.partial.md")):
    c = [x.strip() for x in l.strip().strip("|").split("|")]
    if len(c) >= 6 and re.match(r"C\d\d-\d+$", c[0]):
        rows[(c[0], c[1])] = c
def key(k):
    p, n = k[0].split("-")
    return (p, int(n), k[1])
with open(os.path.join(VERIF, "seeded", "RESULTS.md"), "w") as f:
    f.write("| seed | check | tier | verdict | failing units/harnesses | counterexamples |\n|---|---|---|---|---|---|\n")
    for k in sorted(rows, key=key):
        f.write("| " + " | ".join(rows[k]) + " |\n")
print(len(rows), "rows")
