//! D62 (C07): with the RFC 1035 5.2 validity checks switched off (`Zonefile::allow_invalid`, the mode in which a file may
//! mix classes), a record without a class inherited the FIRST class the file ever stated, not the last explicitly stated
//! one (RFC 1035 5.1, quoted in the code itself). Writing the inherited class out explicitly then changes the records:
//! inherited versus explicit class must give the same sequence of records (C07).
use domain::base::name::Name;
use domain::zonefile::inplace::{Entry, Zonefile};
use std::str::FromStr;
fn read(text: &str) -> Result<Vec<String>, String> {
    let mut zf = Zonefile::from(text.as_bytes()).allow_invalid();
    zf.set_origin(Name::from_str("example.").unwrap());
    let mut out = Vec::new();
    loop {
        match zf.next_entry() {
            Ok(Some(Entry::Record(r))) => out.push(format!("{} {} {} {:?}", r.owner(), r.class(), r.ttl().as_secs(), r.data())),
            Ok(Some(_)) => {}
            Ok(None) => return Ok(out),
            Err(e) => return Err(format!("{}", e)),
        }
    }
}
fn main() {
    // the third record states no class: the last explicitly stated one is CH
    let inherited = "a 3600 IN A 192.0.2.1\nb 3600 CH A 192.0.2.2\nc 3600 A 192.0.2.3\n";
    let explicit = "a 3600 IN A 192.0.2.1\nb 3600 CH A 192.0.2.2\nc 3600 CH A 192.0.2.3\n";
    let (i, e) = (read(inherited), read(explicit));
    println!("{:?} -> {:?}\n{:?} -> {:?}", inherited, i, explicit, e);
    if i != e {
        println!("FAILING INPUT: the class a record inherits is not the last explicitly stated one");
        std::process::exit(1);
    }
    println!("OK");
}
