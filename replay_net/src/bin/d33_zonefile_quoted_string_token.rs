//! D33 (C07): `scan_string` on a quoted token kept the closing quote in the result (`$INCLUDE "a b"` gave the
//! path `a b"`), and because it split the buffer one octet too far a token glued to the closing quote made the
//! next `scan_name` fail its `assert!(start > 0)`: the reader panicked on `$INCLUDE "f"x`.
use domain::zonefile::inplace::{Entry, Zonefile};

fn read(text: &str) -> String {
    let t = text.as_bytes().to_vec();
    let r = std::panic::catch_unwind(move || {
        let mut zf = Zonefile::from(&t[..]);
        let mut out = String::new();
        loop {
            match zf.next_entry() {
                Ok(Some(Entry::Include { path, origin })) => out += &format!("INCLUDE path={:?} origin={:?}; ", path.to_string(), origin.map(|o| o.to_string())),
                Ok(Some(_)) => out += "record; ",
                Ok(None) => break,
                Err(e) => {
                    out += &format!("ERR {}", e);
                    break;
                }
            }
        }
        out
    });
    r.unwrap_or_else(|_| "PANIC".to_string())
}
fn main() {
    std::panic::set_hook(Box::new(|_| {}));
    let mut ok = true;
    let a = read("$INCLUDE \"a b\" foo.\n");
    println!("$INCLUDE \"a b\" foo. -> {}", a);
    if !a.contains("path=\"a b\"") {
        println!("FAIL: the quoted path is not `a b`");
        ok = false;
    }
    for t in ["$INCLUDE \"f\"x\n", "$INCLUDE \"\"ile\n"] {
        let r = read(t);
        println!("{:?} -> {}", t, r);
        if r == "PANIC" {
            println!("FAIL: the reader panics");
            ok = false;
        }
    }
    if !ok {
        std::process::exit(1);
    }
    println!("OK");
}
