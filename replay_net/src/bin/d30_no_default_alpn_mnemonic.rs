//! D30 (C06): the SVCB parameter no-default-alpn was written as `nodefaultalpn`, a mnemonic the reader does not
//! know (RFC 9460: `no-default-alpn`): records with it could not be read back.
#[path = "../rt.rs"]
mod rt;
use bytes::Bytes;
use domain::rdata::svcb::{SvcParams, Svcb};

fn main() {
    std::panic::set_hook(Box::new(|_| {}));
    // alpn=h2 (key 1), no-default-alpn (key 2, empty value)
    let params = SvcParams::from_octets(Bytes::from_static(b"\x00\x01\x00\x03\x02h2\x00\x02\x00\x00")).ok().unwrap();
    let r = rt::rec("a.", Svcb::new(1, rt::n("t.example."), params).unwrap().into());
    if !rt::roundtrip("SVCB alpn + no-default-alpn", &r) {
        std::process::exit(1);
    }
    println!("OK");
}
