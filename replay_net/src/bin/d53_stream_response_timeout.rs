//! D53 (C15): "every request completes exactly once, with a response or with an error inside the configured timeout".
//! net::client::stream::Config::set_response_timeout stored the new value in `response_timeout` (and in the streaming
//! timeout) but not in `single_response_timeout`, and the transport copies `single_response_timeout` (19 s by default)
//! over `response_timeout` for every non-streaming request: the configured timeout never applied. With a 300 ms
//! timeout and a peer that accepts the request and stays silent, the request must fail after about 300 ms.
use domain::base::{MessageBuilder, Name, Rtype};
use domain::net::client::request::{RequestMessage, RequestMessageMulti, SendRequest};
use domain::net::client::stream;
use std::str::FromStr;
use std::time::{Duration, Instant};

fn main() {
    let rt = tokio::runtime::Builder::new_current_thread().enable_time().build().unwrap();
    let code = rt.block_on(async {
        let (client, _silent_peer) = tokio::io::duplex(4096);
        let mut config = stream::Config::new();
        config.set_response_timeout(Duration::from_millis(300));
        println!("configured response timeout: {:?}", config.response_timeout());
        let (conn, transport) = stream::Connection::<RequestMessage<Vec<u8>>, RequestMessageMulti<Vec<u8>>>::with_config(client, config);
        tokio::spawn(transport.run());
        let mut mb = MessageBuilder::new_vec();
        mb.header_mut().set_rd(true);
        let mut q = mb.question();
        q.push((Name::<Vec<u8>>::from_str("example.com.").unwrap(), Rtype::A)).unwrap();
        let req = RequestMessage::new(q.into_message()).unwrap();
        let mut r = conn.send_request(req);
        let t0 = Instant::now();
        let res = tokio::time::timeout(Duration::from_secs(4), r.get_response()).await;
        let took = t0.elapsed();
        match res {
            Ok(Err(e)) if took < Duration::from_secs(2) => {
                println!("request failed after {:?} with: {e}", took);
                println!("OK");
                0
            }
            Ok(Ok(_)) => {
                println!("FAIL: a response from a silent peer?");
                1
            }
            Ok(Err(e)) => {
                println!("FAIL: the request failed only after {:?} ({e}); the configured timeout is 300 ms", took);
                1
            }
            Err(_) => {
                println!("FAIL: the request is still pending after {:?}; the configured timeout is 300 ms", took);
                1
            }
        }
    });
    std::process::exit(code);
}
