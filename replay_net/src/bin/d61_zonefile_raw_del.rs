//! D61 (C07): the fast path of the zone-file tokenizer (`SourceBuf::next_ascii_symbol`) took the octet 0x7F (DEL) as a
//! plain printable character, the symbol path (`Symbol::into_octet`) refuses it as it does every other control octet.
//! Which of the two sees the octet depends on spelling only: once a token contains an escape, the rest of it goes through
//! the symbol path. So `foo<DEL>` was read as the label `foo\127` while `f\oo<DEL>` -- the same logical content, one letter
//! written as an escape -- was an error. The reader's result must not depend on quoted versus escaped spelling (C07).
use domain::base::name::Name;
use domain::zonefile::inplace::{Entry, Zonefile};
use std::str::FromStr;
fn read(text: &[u8]) -> Result<Vec<String>, String> {
    let mut zf = Zonefile::from(text);
    zf.set_origin(Name::from_str("example.").unwrap());
    let mut out = Vec::new();
    loop {
        match zf.next_entry() {
            Ok(Some(Entry::Record(r))) => out.push(format!("{} {:?}", r.owner(), r.data())),
            Ok(Some(_)) => {}
            Ok(None) => return Ok(out),
            Err(e) => return Err(format!("{}", e)),
        }
    }
}
fn main() {
    let mut bad = 0;
    // (plain spelling, the same content with one letter written as an escape)
    let pairs: [(&[u8], &[u8]); 4] = [
        (b"foo\x7f 3600 IN A 192.0.2.1\n", b"f\\oo\x7f 3600 IN A 192.0.2.1\n"),
        (b"a 3600 IN TXT fo\x7fo\n", b"a 3600 IN TXT f\\o\x7fo\n"),
        (b"a 3600 IN TXT \"fo\x7fo\"\n", b"a 3600 IN TXT \"f\\o\x7fo\"\n"),
        (b"a 3600 IN MX 10 ma\x7fil\n", b"a 3600 IN MX 10 m\\a\x7fil\n"),
    ];
    for (plain, escaped) in pairs {
        let (p, e) = (read(plain), read(escaped));
        let same = match (&p, &e) { (Ok(a), Ok(b)) => a == b, (Err(_), Err(_)) => true, _ => false };
        println!("{:?} -> {:?}\n{:?} -> {:?}", String::from_utf8_lossy(plain), p, String::from_utf8_lossy(escaped), e);
        if !same {
            println!("FAILING INPUT: the two spellings of one file read differently");
            bad += 1;
        }
    }
    if bad > 0 { std::process::exit(1); }
    println!("OK");
}
