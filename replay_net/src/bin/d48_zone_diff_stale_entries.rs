//! D48 (C10): "the difference set a zone reports when a change is committed, applied to the old content, yields the new
//! content". WriteNode::update_rrset / remove_rrset (zonetree/in_memory/write.rs) compute what they record from the
//! last published version but only *insert* into the diff: what an earlier change to the same RRset in the same write
//! recorded stays behind. x A {.1,.2} -> update to {.1,.3} -> update to {.2}: the diff says "remove .1, add .3"
//! (gives {.2,.3}); an RRset added and removed again in one write is reported as added.
use bytes::Bytes;
use domain::base::iana::Class;
use domain::base::name::Label;
use domain::base::{Name, Rtype, Serial, Ttl};
use domain::rdata::{Soa, ZoneRecordData, A};
use domain::zonetree::{InMemoryZoneDiff, Rrset, SharedRrset, Zone, ZoneBuilder};
use std::collections::BTreeSet;
use std::future::Future;
use std::pin::Pin;
use std::str::FromStr;
use std::sync::Arc;
use std::task::{Context, Poll, Wake, Waker};

struct Noop;
impl Wake for Noop {
    fn wake(self: Arc<Self>) {}
}
fn now<T>(mut f: Pin<Box<dyn Future<Output = T> + Send + Sync>>) -> T {
    let w = Waker::from(Arc::new(Noop));
    let mut cx = Context::from_waker(&w);
    match f.as_mut().poll(&mut cx) {
        Poll::Ready(v) => v,
        Poll::Pending => panic!("pending"),
    }
}
fn a_rrset(last: &[u8]) -> SharedRrset {
    let mut rrset = Rrset::new(Rtype::A, Ttl::from_secs(300));
    for l in last {
        rrset.push_data(ZoneRecordData::A(A::from_octets(192, 0, 2, *l)));
    }
    SharedRrset::new(rrset)
}
fn mk_zone() -> Zone {
    let apex = Name::<Bytes>::from_str("example.com").unwrap();
    let mut b = ZoneBuilder::new(apex.clone(), Class::IN);
    let mut soa = Rrset::new(Rtype::SOA, Ttl::from_secs(300));
    let t = Ttl::from_secs(60);
    soa.push_data(ZoneRecordData::Soa(Soa::new(
        Name::<Bytes>::from_str("ns.example.com").unwrap(),
        Name::<Bytes>::from_str("admin.example.com").unwrap(),
        Serial(1), t, t, t, t,
    )));
    b.insert_rrset(&apex, SharedRrset::new(soa)).unwrap();
    b.insert_rrset(&Name::<Bytes>::from_str("x.example.com").unwrap(), a_rrset(&[1, 2])).unwrap();
    b.build()
}
/// one write: the edits (label, Some(new A data) | None = remove) in order, then commit; returns the diff
fn write(zone: &Zone, edits: &[(&str, Option<&[u8]>)]) -> InMemoryZoneDiff {
    let mut w = now(zone.write());
    let apex = now(w.open(true)).unwrap();
    for (l, v) in edits {
        let n = now(apex.update_child(Label::from_slice(l.as_bytes()).unwrap())).unwrap();
        match v {
            Some(v) => now(n.update_rrset(a_rrset(v))).unwrap(),
            None => now(n.remove_rrset(Rtype::A)).unwrap(),
        }
    }
    drop(apex);
    now(w.commit(true)).unwrap().expect("commit after open(true) returns a diff")
}
fn apply(old: &[&str], diff: &InMemoryZoneDiff) -> BTreeSet<String> {
    let mut c: BTreeSet<String> = old.iter().map(|s| s.to_string()).collect();
    for ((owner, rtype), rrset) in diff.removed.iter() {
        if *rtype == Rtype::A {
            for d in rrset.data() {
                c.remove(&format!("{owner} A {d}"));
            }
        }
    }
    for ((owner, rtype), rrset) in diff.added.iter() {
        if *rtype == Rtype::A {
            for d in rrset.data() {
                c.insert(format!("{owner} A {d}"));
            }
        }
    }
    c
}
fn main() {
    let old = ["x.example.com A 192.0.2.1", "x.example.com A 192.0.2.2"];
    let cases: [(&str, Vec<(&str, Option<&[u8]>)>, Vec<&str>); 4] = [
        ("update x to {.1,.3}, then to {.2}", vec![("x", Some(&[1, 3])), ("x", Some(&[2]))], vec!["x.example.com A 192.0.2.2"]),
        ("update x to {.1,.3}, then remove it", vec![("x", Some(&[1, 3])), ("x", None)], vec![]),
        ("add g {.3}, then remove it", vec![("g", Some(&[3])), ("g", None)], old.to_vec()),
        ("update x to {.2} (one change: control)", vec![("x", Some(&[2]))], vec!["x.example.com A 192.0.2.2"]),
    ];
    let mut ok = true;
    for (what, edits, new) in cases {
        let zone = mk_zone();
        let diff = write(&zone, &edits);
        let got = apply(&old, &diff);
        let want: BTreeSet<String> = new.iter().map(|s| s.to_string()).collect();
        println!("{what}: old + diff = {got:?}");
        if got != want {
            println!("FAIL: the new version holds {want:?}");
            ok = false;
        }
    }
    if !ok {
        std::process::exit(1);
    }
    println!("OK");
}
