//! C09 / C10 -- bounded exploration of writer/reader histories on the real in-memory zone (a counterexample finder
//! and bounded stand-in; never counted as a proved obligation).
//!
//! Every sequence of at most MAXLEN enabled operations out of
//!   R   take a reader and hold it (two are held; the oldest is replaced)
//!   W   obtain the writer (zone.write()), P  ask for a second writer while the first is open (its future must stay
//!       pending), A  after the first writer is gone, the waiting writer gets the zone
//!   O0 / O1   open the writer without / with diff tracking
//!   U..  update_rrset / D.. remove_rrset on three owner names (one of them new, one holding two records; one update
//!        changes only the TTL of an RRset, one changes records and TTL)
//!   Uab  a record at a.b (two labels below the apex: b becomes an empty non-terminal created by the writer)
//!   Uy0  update_rrset with an RRset that holds no record (removes the type in the version being written)
//!   RA  remove_all at the apex followed by writing the SOA back (the start of an AXFR-style replacement); the zone also
//!       holds a delegation and a CNAME, which live in the nodes' "special" slot
//!   C   commit(true) (the SOA serial is bumped so that a diff can be built; the writer stays and can be opened again), X  drop the writer without commit
//! is run on a fresh three-name zone and compared after *every* step with a map model: each held reader walks and
//! queries exactly the content that was committed when it was taken; a new reader sees exactly the committed
//! content (nothing staged, nothing abandoned); a commit publishes exactly the staged content; the diff handed out
//! by commit(), applied to the previously committed content, gives the newly committed content.
//! Single-threaded: futures are polled by hand with a no-op waker, so "a second writer must wait" is checked
//! deterministically (lock-level real-thread schedules are outside this program).
use bytes::Bytes;
use domain::base::iana::Class;
use domain::base::name::Label;
use domain::base::{Name, Rtype, Serial, Ttl};
use domain::rdata::{Cname, Ns, Soa, ZoneRecordData, A};
use domain::zonetree::{AnswerContent, ReadableZone, Rrset, SharedRr, SharedRrset, WritableZone, WritableZoneNode, Zone, ZoneBuilder};
use std::collections::{BTreeMap, BTreeSet};
use std::future::Future;
use std::pin::Pin;
use std::str::FromStr;
use std::sync::{Arc, Mutex};
use std::task::{Context, Poll, Wake, Waker};

const MAXLEN: usize = 7;

struct Noop;
impl Wake for Noop {
    fn wake(self: Arc<Self>) {}
}
fn poll_once<F: Future + ?Sized>(f: &mut Pin<Box<F>>) -> Poll<F::Output> {
    let w = Waker::from(Arc::new(Noop));
    let mut cx = Context::from_waker(&w);
    f.as_mut().poll(&mut cx)
}
/// run a future that must complete without waiting for anybody else
fn now<T>(mut f: Pin<Box<dyn Future<Output = T> + Send + Sync>>) -> Result<T, String> {
    for _ in 0..4 {
        if let Poll::Ready(v) = poll_once(&mut f) {
            return Ok(v);
        }
    }
    Err("a future that should be ready stays pending".into())
}

type Content = BTreeMap<&'static str, (u32, Vec<u8>)>; // owner label -> TTL and last octets of the A records (sorted)
type Snap = BTreeSet<String>;

const NAMES: [&str; 3] = ["x", "y", "g"];
/// pseudo owner under which the model keeps "the delegation and the alias are there"
const SPECIALS: &str = "*specials";
/// what a walk reports for the delegation and the alias (taken from a walk of the freshly built zone)
static SPECIAL_LINES: std::sync::OnceLock<Vec<String>> = std::sync::OnceLock::new();

fn a_rrset(ttl: u32, last: &[u8]) -> SharedRrset {
    let mut rrset = Rrset::new(Rtype::A, Ttl::from_secs(ttl));
    for l in last {
        rrset.push_data(ZoneRecordData::A(A::from_octets(192, 0, 2, *l)));
    }
    SharedRrset::new(rrset)
}
fn soa_rrset() -> SharedRrset {
    let mut rrset = Rrset::new(Rtype::SOA, Ttl::from_secs(300));
    let t = Ttl::from_secs(60);
    rrset.push_data(ZoneRecordData::Soa(Soa::new(
        Name::<Bytes>::from_str("ns.example.com").unwrap(),
        Name::<Bytes>::from_str("admin.example.com").unwrap(),
        Serial(1), t, t, t, t,
    )));
    SharedRrset::new(rrset)
}
fn name(l: &str) -> Name<Bytes> {
    Name::<Bytes>::from_str(&format!("{l}.example.com")).unwrap()
}
fn initial() -> Content {
    let mut c = Content::new();
    c.insert("x", (300, vec![1, 2]));
    c.insert("y", (300, vec![7]));
    c.insert(SPECIALS, (0, vec![]));
    c
}
fn mk_zone() -> Zone {
    let apex = Name::<Bytes>::from_str("example.com").unwrap();
    let mut b = ZoneBuilder::new(apex.clone(), Class::IN);
    b.insert_rrset(&apex, soa_rrset()).unwrap();
    for (l, (ttl, v)) in initial() {
        if l == SPECIALS { continue; }
        b.insert_rrset(&name(l), a_rrset(ttl, &v)).unwrap();
    }
    // a delegation and an alias: nodes whose content is a "special" (zone cut, CNAME) rather than an RRset
    let mut ns = Rrset::new(Rtype::NS, Ttl::from_secs(300));
    ns.push_data(ZoneRecordData::Ns(Ns::new(name("ns.sub"))));
    b.insert_zone_cut(&name("sub"), SharedRrset::new(ns), None, vec![]).unwrap();
    b.insert_cname(&name("alias"), SharedRr::new(Ttl::from_secs(300), ZoneRecordData::Cname(Cname::new(name("x"))))).unwrap();
    b.build()
}
fn expected_snap(c: &Content) -> Snap {
    let mut s = Snap::new();
    for (l, (ttl, v)) in c {
        if *l == SPECIALS {
            for line in SPECIAL_LINES.get().map(|v| &v[..]).unwrap_or(&[]) {
                s.insert(line.clone());
            }
            continue;
        }
        for o in v {
            s.insert(format!("{l}.example.com {ttl} A 192.0.2.{o}"));
        }
    }
    s
}
/// walk the zone: every A record as a line; duplicates and anything besides A and the SOA are failures
fn walk(reader: &dyn ReadableZone) -> Result<Snap, String> {
    let out = Arc::new(Mutex::new(Vec::<String>::new()));
    let out2 = out.clone();
    reader.walk(Box::new(move |owner, rrset, _cut| {
        for d in rrset.data() {
            out2.lock().unwrap().push(format!("{} {} {} {}", owner, rrset.ttl().as_secs(), rrset.rtype(), d));
        }
    }));
    let v = out.lock().unwrap().clone();
    let mut s = Snap::new();
    let mut soa = 0;
    for line in v {
        if line.contains(" SOA ") {
            soa += 1;
            continue;
        }
        if !s.insert(line.clone()) {
            return Err(format!("walk reports {line} twice"));
        }
    }
    if soa != 1 {
        return Err(format!("walk reports {soa} SOA records"));
    }
    Ok(s)
}
fn query(reader: &dyn ReadableZone, l: &str) -> Result<Vec<u8>, String> {
    let answer = reader.query(name(l), Rtype::A).map_err(|_| "query: out of zone".to_string())?;
    Ok(match answer.content() {
        AnswerContent::Data(rrset) => {
            // the first element is the TTL in units of 100 s (300 -> 3, 600 -> 6), then the last octets
            let t = (rrset.ttl().as_secs() / 100) as u8;
            let mut v: Vec<u8> = rrset
                .data()
                .iter()
                .map(|d| match d {
                    ZoneRecordData::A(a) => a.addr().octets()[3],
                    _ => 255,
                })
                .collect();
            v.sort();
            v.insert(0, t);
            v
        }
        AnswerContent::Cname(_) => vec![254],
        AnswerContent::NoData => vec![],
    })
}
fn check_reader(what: &str, reader: &dyn ReadableZone, want: &Content) -> Result<(), String> {
    let got = walk(reader).map_err(|e| format!("{what}: {e}"))?;
    let exp = expected_snap(want);
    if got != exp {
        return Err(format!("{what}: walk gives {got:?}, the reader's version holds {exp:?}"));
    }
    for l in NAMES {
        let q = query(reader, l).map_err(|e| format!("{what}: {e}"))?;
        let w = want.get(l).map(|(ttl, v)| { let mut w = vec![(ttl / 100) as u8]; w.extend(v); w }).unwrap_or_default();
        if q != w {
            return Err(format!("{what}: query {l} A gives {q:?}, the reader's version holds {w:?}"));
        }
    }
    Ok(())
}

#[derive(Clone, Copy, Debug, PartialEq, Eq)]
enum Op { R, W, P, A, O0, O1, Ux2, Ux13, Ux12t, Dx, Ug3, Dg, Uy8, Dy, Uy0, Uab, RA, C, X }
const OPS: [Op; 19] = [Op::R, Op::W, Op::P, Op::A, Op::O0, Op::O1, Op::Ux2, Op::Ux13, Op::Ux12t, Op::Dx, Op::Ug3, Op::Dg, Op::Uy8, Op::Dy, Op::Uy0, Op::Uab, Op::RA, Op::C, Op::X];

struct World {
    zone: Zone,
    committed: Content,
    readers: Vec<(Box<dyn ReadableZone>, Content)>,
    writer: Option<Box<dyn WritableZone>>,
    node: Option<Box<dyn WritableZoneNode>>,
    /// content of the version being written (edits survive closing and re-opening until commit or drop)
    staged: Option<Content>,
    /// opens since the last commit / since the writer was obtained: (count, all with diff tracking)
    opens: (usize, bool),
    pending: Option<Pin<Box<dyn Future<Output = Box<dyn WritableZone>> + Send + Sync>>>,
}
impl World {
    fn new() -> Self {
        World { zone: mk_zone(), committed: initial(), readers: vec![], writer: None, node: None, staged: None, opens: (0, true), pending: None }
    }
    fn enabled(&self, op: Op) -> bool {
        match op {
            Op::R => true,
            Op::W => self.writer.is_none() && self.pending.is_none(),
            Op::P => self.writer.is_some() && self.pending.is_none(),
            Op::A => self.writer.is_none() && self.pending.is_some(),
            Op::O0 | Op::O1 => self.writer.is_some() && self.node.is_none(),
            Op::Ux2 | Op::Ux13 | Op::Ux12t | Op::Dx | Op::Ug3 | Op::Dg | Op::Uy8 | Op::Dy | Op::Uy0 | Op::Uab | Op::RA => self.node.is_some(),
            Op::C => self.writer.is_some(),
            Op::X => self.writer.is_some(),
        }
    }
    fn edit(&mut self, l: &'static str, val: Option<(u32, &[u8])>) -> Result<(), String> {
        let node = self.node.as_ref().unwrap();
        let child = now(node.update_child(Label::from_slice(l.as_bytes()).unwrap()))?.map_err(|e| e.to_string())?;
        match val {
            Some((ttl, v)) => now(child.update_rrset(a_rrset(ttl, v)))?.map_err(|e| e.to_string())?,
            None => now(child.remove_rrset(Rtype::A))?.map_err(|e| e.to_string())?,
        }
        let st = self.staged.as_mut().unwrap();
        match val {
            Some((ttl, v)) => { st.insert(l, (ttl, v.to_vec())); }
            None => { st.remove(l); }
        }
        Ok(())
    }
    fn step(&mut self, op: Op) -> Result<(), String> {
        match op {
            Op::R => {
                if self.readers.len() == 2 {
                    self.readers.remove(0);
                }
                self.readers.push((self.zone.read(), self.committed.clone()));
            }
            Op::W => {
                self.writer = Some(now(self.zone.write())?);
                self.opens = (0, true);
            }
            Op::P => {
                let mut f = self.zone.write();
                if let Poll::Ready(_) = poll_once(&mut f) {
                    return Err("a second writer was handed out while the first one is open (writers are not serialised)".into());
                }
                self.pending = Some(f);
            }
            Op::A => {
                let mut f = self.pending.take().unwrap();
                match poll_once(&mut f) {
                    Poll::Ready(w) => self.writer = Some(w),
                    Poll::Pending => return Err("the waiting writer does not get the zone after the first writer is gone".into()),
                }
                self.opens = (0, true);
            }
            Op::O0 | Op::O1 => {
                let diff = op == Op::O1;
                let n = now(self.writer.as_ref().unwrap().open(diff))?.map_err(|e| e.to_string())?;
                self.node = Some(n);
                if self.staged.is_none() {
                    self.staged = Some(self.committed.clone());
                }
                self.opens = (self.opens.0 + 1, self.opens.1 && diff);
            }
            Op::Ux2 => self.edit("x", Some((300, &[2])))?,
            Op::Ux13 => self.edit("x", Some((300, &[1, 3])))?,
            // the same records under another TTL
            Op::Ux12t => self.edit("x", Some((600, &[1, 2])))?,
            Op::Dx => self.edit("x", None)?,
            Op::Ug3 => self.edit("g", Some((300, &[3])))?,
            Op::Dg => self.edit("g", None)?,
            Op::Uy8 => self.edit("y", Some((600, &[8])))?,
            Op::Dy => self.edit("y", None)?,
            Op::Uab => {
                // a record two labels below the apex: the node in between (b.example.com) is created on the way and
                // has no records of its own -- an empty non-terminal made by a writer, as a zone transfer makes them
                let node = self.node.as_ref().unwrap();
                let b = now(node.update_child(Label::from_slice(b"b").unwrap()))?.map_err(|e| e.to_string())?;
                let a = now(b.update_child(Label::from_slice(b"a").unwrap()))?.map_err(|e| e.to_string())?;
                now(a.update_rrset(a_rrset(300, &[9])))?.map_err(|e| e.to_string())?;
                self.staged.as_mut().unwrap().insert("a.b", (300, vec![9]));
            }
            Op::Uy0 => {
                // update_rrset with an RRset that holds no record: the type is gone from the version being written
                // (and from no other); what the diff says about such a write is not judged
                let node = self.node.as_ref().unwrap();
                let child = now(node.update_child(Label::from_slice(b"y").unwrap()))?.map_err(|e| e.to_string())?;
                now(child.update_rrset(a_rrset(600, &[])))?.map_err(|e| e.to_string())?;
                self.staged.as_mut().unwrap().remove("y");
                self.opens.1 = false;
            }
            Op::RA => {
                // the start of an AXFR-style replacement: everything below and at the apex goes (delegation and alias
                // included), the SOA is written back at once
                let node = self.node.as_ref().unwrap();
                now(node.remove_all())?.map_err(|e| e.to_string())?;
                now(node.update_rrset(soa_rrset()))?.map_err(|e| e.to_string())?;
                self.staged.as_mut().unwrap().clear();
                // remove_all does not report to the diff (open finding D52): the diff of such a write is not judged
                self.opens.1 = false;
            }
            Op::C => {
                self.node = None;
                let diff = now(self.writer.as_mut().unwrap().commit(true))?.map_err(|e| e.to_string())?;
                let new = self.staged.take().unwrap_or_else(|| self.committed.clone());
                if self.opens == (1, true) {
                    // exactly one open, with diff tracking: the diff must turn the old content into the new one
                    let diff = diff.ok_or("commit() after open(true) returned no diff")?;
                    let mut c = expected_snap(&self.committed);
                    for ((owner, rtype), rrset) in diff.removed.iter() {
                        if *rtype != Rtype::A { continue; }
                        for d in rrset.data() {
                            let line = format!("{owner} {} A {d}", rrset.ttl().as_secs());
                            if !c.remove(&line) {
                                return Err(format!("the diff removes {line}, which the previous version does not hold"));
                            }
                        }
                    }
                    for ((owner, rtype), rrset) in diff.added.iter() {
                        if *rtype != Rtype::A { continue; }
                        for d in rrset.data() {
                            c.insert(format!("{owner} {} A {d}", rrset.ttl().as_secs()));
                        }
                    }
                    let exp = expected_snap(&new);
                    if c != exp {
                        return Err(format!("the diff of the commit applied to the previous version gives {c:?}, the new version holds {exp:?}"));
                    }
                }
                self.committed = new;
                self.opens = (0, true);
            }
            Op::X => {
                self.node = None;
                self.writer = None;
                self.staged = None;
            }
        }
        // after every step: held readers see their version, a new reader the committed one
        for (i, (r, want)) in self.readers.iter().enumerate() {
            check_reader(&format!("held reader #{i}"), r.as_ref(), want)?;
        }
        check_reader("new reader", self.zone.read().as_ref(), &self.committed)?;
        Ok(())
    }
}

fn run(seq: &[Op]) -> Result<(), String> {
    let mut w = World::new();
    for (i, op) in seq.iter().enumerate() {
        w.step(*op).map_err(|e| format!("after step {} ({:?}): {e}", i + 1, op))?;
    }
    Ok(())
}
/// which operations are enabled after `seq` (replays the sequence on a fresh zone: zones cannot be cloned)
fn enabled_after(seq: &[Op]) -> Vec<Op> {
    let mut w = World::new();
    for op in seq {
        let _ = w.step(*op);
    }
    OPS.iter().copied().filter(|o| w.enabled(*o)).collect()
}

fn main() {
    std::panic::set_hook(Box::new(|_| {}));
    // calibration: what a walk says about the delegation and the alias of the freshly built zone
    {
        let z = mk_zone();
        let all = walk(z.read().as_ref()).expect("walk of the initial zone");
        let lines: Vec<String> = all.into_iter().filter(|l| !l.contains(" A ")).collect();
        if lines.len() != 2 {
            println!("FAIL calibration: the walk of the initial zone reports {lines:?} for the delegation and the alias");
            std::process::exit(1);
        }
        SPECIAL_LINES.set(lines).unwrap();
    }
    let mut count = 0u64;
    let mut with_commit = 0u64;
    let mut failures: Vec<String> = vec![];
    // breadth-first over enabled sequences; a failing sequence is not extended
    let mut frontier: Vec<Vec<Op>> = vec![vec![]];
    for _len in 1..=MAXLEN {
        let mut next = vec![];
        for seq in &frontier {
            for op in enabled_after(seq) {
                // prune: edits only matter if something can still observe them; keep readers early
                let mut s = seq.clone();
                s.push(op);
                // interesting sequences contain a writer; skip sequences of readers only beyond length 2
                if s.iter().all(|o| *o == Op::R) && s.len() > 1 { continue; }
                // at most three edits per sequence keeps the space small without losing the two-edits-per-RRset cases
                if s.iter().filter(|o| matches!(o, Op::Ux2 | Op::Ux13 | Op::Ux12t | Op::Dx | Op::Ug3 | Op::Dg | Op::Uy8 | Op::Dy | Op::Uy0 | Op::Uab | Op::RA)).count() > 3 { continue; }
                count += 1;
                let r = std::panic::catch_unwind(|| run(&s));
                match r {
                    Ok(Ok(())) => {
                        if s.contains(&Op::C) { with_commit += 1; }
                        next.push(s);
                    }
                    Ok(Err(e)) => {
                        if failures.len() < 5 { failures.push(format!("{:?}: {e}", s)); }
                    }
                    Err(_) => {
                        if failures.len() < 5 { failures.push(format!("{:?}: PANIC", s)); }
                    }
                }
            }
        }
        frontier = next;
        if !failures.is_empty() { break; }
    }
    println!("histories run: {count} (of which {with_commit} reach a commit), up to {MAXLEN} steps");
    if !failures.is_empty() {
        for f in &failures {
            println!("FAIL {f}");
        }
        std::process::exit(1);
    }
    println!("OK");
}
