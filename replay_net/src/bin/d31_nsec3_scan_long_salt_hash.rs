//! D31 (C07/C05): the zone-file reader built an NSEC3 salt or hashed owner name longer than 255 octets without a
//! length check (`from_octets_unchecked` on the scanned token): the entry was accepted and composing or displaying
//! the record panicked later ("long salt" / "long hash").
#[path = "../rt.rs"]
mod rt;
use domain::base::rdata::ComposeRecordData;

fn try_line(what: &str, line: String) -> bool {
    match rt::read(line.as_bytes()) {
        Err(e) if e == "PANIC" => {
            println!("{}: reader panics", what);
            false
        }
        Err(e) => {
            println!("{}: refused by the reader ({})", what, &e[..e.len().min(60)]);
            true
        }
        Ok(v) => {
            // accepted: then everything else has to work on the value
            let r = std::panic::catch_unwind(move || {
                let mut buf = Vec::new();
                for rec in &v {
                    rec.data().compose_rdata(&mut buf).unwrap();
                    let _ = format!("{}", rec);
                }
                buf.len()
            });
            match r {
                Ok(n) => {
                    println!("{}: accepted, composes to {} octets", what, n);
                    true
                }
                Err(_) => {
                    println!("{}: FAIL: accepted by the reader, composing/displaying the record panics", what);
                    false
                }
            }
        }
    }
}

fn main() {
    std::panic::set_hook(Box::new(|_| {}));
    let mut ok = true;
    ok &= try_line("NSEC3PARAM with a 300-octet salt", format!("a. 3600 IN NSEC3PARAM 1 0 0 {}\n", "ab".repeat(300)));
    ok &= try_line("NSEC3 with a 300-octet hash", format!("a. 3600 IN NSEC3 1 0 0 - {} A\n", "0".repeat(480)));
    ok &= try_line("NSEC3PARAM with a 255-octet salt", format!("a. 3600 IN NSEC3PARAM 1 0 0 {}\n", "ab".repeat(255)));
    ok &= try_line("NSEC3 with a 20-octet hash", format!("a. 3600 IN NSEC3 1 0 0 - {} A\n", "0".repeat(32)));
    if !ok {
        std::process::exit(1);
    }
    println!("OK");
}
