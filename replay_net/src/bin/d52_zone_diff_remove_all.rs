//! D52 (C10, open): "the difference set a zone reports when a change is committed, applied to the old content, yields the new
//! content". WritableZoneNode::remove_all (zonetree/in_memory/write.rs -> nodes.rs), which ZoneUpdater uses for an AXFR-style
//! replacement (DeleteAllRecords), does not tell the diff builder anything: RRsets that existed before and are not added
//! again are missing from the diff's `removed` set, so the diff of such a commit does not lead from the old to the new
//! content. (Repairing it means walking the subtree that is being masked and recording every RRset in it.)
use bytes::Bytes;
use domain::base::iana::Class;
use domain::base::name::Label;
use domain::base::{Name, Rtype, Serial, Ttl};
use domain::rdata::{Soa, ZoneRecordData, A};
use domain::zonetree::{InMemoryZoneDiff, Rrset, SharedRrset, Zone, ZoneBuilder};
use std::collections::BTreeSet;
use std::future::Future;
use std::pin::Pin;
use std::str::FromStr;
use std::sync::Arc;
use std::task::{Context, Poll, Wake, Waker};

struct Noop;
impl Wake for Noop {
    fn wake(self: Arc<Self>) {}
}
fn now<T>(mut f: Pin<Box<dyn Future<Output = T> + Send + Sync>>) -> T {
    let w = Waker::from(Arc::new(Noop));
    let mut cx = Context::from_waker(&w);
    match f.as_mut().poll(&mut cx) {
        Poll::Ready(v) => v,
        Poll::Pending => panic!("pending"),
    }
}
fn a_rrset(ttl: u32, last: &[u8]) -> SharedRrset {
    let mut rrset = Rrset::new(Rtype::A, Ttl::from_secs(ttl));
    for l in last {
        rrset.push_data(ZoneRecordData::A(A::from_octets(192, 0, 2, *l)));
    }
    SharedRrset::new(rrset)
}
fn mk_zone() -> Zone {
    let apex = Name::<Bytes>::from_str("example.com").unwrap();
    let mut b = ZoneBuilder::new(apex.clone(), Class::IN);
    let mut soa = Rrset::new(Rtype::SOA, Ttl::from_secs(300));
    let t = Ttl::from_secs(60);
    soa.push_data(ZoneRecordData::Soa(Soa::new(
        Name::<Bytes>::from_str("ns.example.com").unwrap(),
        Name::<Bytes>::from_str("admin.example.com").unwrap(),
        Serial(1), t, t, t, t,
    )));
    b.insert_rrset(&apex, SharedRrset::new(soa)).unwrap();
    b.insert_rrset(&Name::<Bytes>::from_str("x.example.com").unwrap(), a_rrset(300, &[1, 2])).unwrap();
    b.build()
}
/// one write: the edits (label, Some(new A data) | None = remove) in order, then commit; returns the diff
#[allow(dead_code)]
fn write(zone: &Zone, edits: &[(&str, Option<(u32, &[u8])>)]) -> InMemoryZoneDiff {
    let mut w = now(zone.write());
    let apex = now(w.open(true)).unwrap();
    for (l, v) in edits {
        let n = now(apex.update_child(Label::from_slice(l.as_bytes()).unwrap())).unwrap();
        match v {
            Some((ttl, v)) => now(n.update_rrset(a_rrset(*ttl, v))).unwrap(),
            None => now(n.remove_rrset(Rtype::A)).unwrap(),
        }
    }
    drop(apex);
    now(w.commit(true)).unwrap().expect("commit after open(true) returns a diff")
}
fn apply(old: &[&str], diff: &InMemoryZoneDiff) -> BTreeSet<String> {
    let mut c: BTreeSet<String> = old.iter().map(|s| s.to_string()).collect();
    for ((owner, rtype), rrset) in diff.removed.iter() {
        if *rtype == Rtype::A {
            for d in rrset.data() {
                if !c.remove(&format!("{owner} {} A {d}", rrset.ttl().as_secs())) {
                    println!("the diff removes {owner} {} A {d}, which the old version does not hold", rrset.ttl().as_secs());
                    c.insert("(removal of a record that is not there)".into());
                }
            }
        }
    }
    for ((owner, rtype), rrset) in diff.added.iter() {
        if *rtype == Rtype::A {
            for d in rrset.data() {
                c.insert(format!("{owner} {} A {d}", rrset.ttl().as_secs()));
            }
        }
    }
    c
}
fn main() {
    let old = ["x.example.com 300 A 192.0.2.1", "x.example.com 300 A 192.0.2.2"];
    let zone = mk_zone();
    let mut w = now(zone.write());
    let apex = now(w.open(true)).unwrap();
    // AXFR-style replacement: everything goes, then the new content is written (x is not part of it any more)
    now(apex.remove_all()).unwrap();
    let mut soa = Rrset::new(Rtype::SOA, Ttl::from_secs(300));
    let t = Ttl::from_secs(60);
    soa.push_data(ZoneRecordData::Soa(Soa::new(
        Name::<Bytes>::from_str("ns.example.com").unwrap(),
        Name::<Bytes>::from_str("admin.example.com").unwrap(),
        Serial(2), t, t, t, t,
    )));
    now(apex.update_rrset(SharedRrset::new(soa))).unwrap();
    let n = now(apex.update_child(Label::from_slice(b"g").unwrap())).unwrap();
    now(n.update_rrset(a_rrset(300, &[3]))).unwrap();
    drop(n);
    drop(apex);
    let diff = match now(w.commit(false)).unwrap() {
        Some(d) => d,
        None => {
            println!("commit after open(true) returned no diff");
            std::process::exit(2);
        }
    };
    let got = apply(&old, &diff);
    let want: BTreeSet<String> = ["g.example.com 300 A 192.0.2.3"].iter().map(|s| s.to_string()).collect();
    println!("replace everything by g A .3: old + diff = {got:?}");
    if got != want {
        println!("FAIL: the new version holds {want:?}");
        std::process::exit(1);
    }
    println!("OK");
}
