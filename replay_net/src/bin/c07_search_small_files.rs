//! C07 native search (a bounded exploration of the real crate, run on every check; it also supplies the concrete input when a Verus obligation of the property fails): every file of at most 4 octets over the tokenizer's special octets is read through the
//! public API; a panic or a read that makes no progress for 10 s is the failing input. Exit 1 with the input,
//! exit 0 if none of the files fails.
use domain::base::name::Name;
use domain::zonefile::inplace::Zonefile;
use std::str::FromStr;
use std::sync::atomic::{AtomicU64, Ordering};
use std::sync::{Arc, Mutex};

const ALPHABET: &[u8] = b" \t\r\n;()\"\\a@$0";

fn read_all(bytes: &[u8]) {
    let mut zf = Zonefile::from(bytes);
    zf.set_origin(Name::from_str("example.").unwrap());
    loop {
        match zf.next_entry() {
            Ok(Some(_)) => {}
            Ok(None) | Err(_) => return,
        }
    }
}

fn main() {
    std::panic::set_hook(Box::new(|_| {}));
    let progress = Arc::new(AtomicU64::new(0));
    let current = Arc::new(Mutex::new(Vec::<u8>::new()));
    let failed = Arc::new(Mutex::new(None::<(Vec<u8>, String)>));
    let (p2, c2, f2) = (progress.clone(), current.clone(), failed.clone());
    let worker = std::thread::spawn(move || {
        let k = ALPHABET.len();
        for len in 0..=4usize {
            let total = k.pow(len as u32);
            for mut idx in 0..total {
                let mut buf = Vec::with_capacity(len);
                for _ in 0..len {
                    buf.push(ALPHABET[idx % k]);
                    idx /= k;
                }
                *c2.lock().unwrap() = buf.clone();
                p2.fetch_add(1, Ordering::SeqCst);
                let b2 = buf.clone();
                if let Err(e) = std::panic::catch_unwind(move || read_all(&b2)) {
                    let msg = e.downcast_ref::<String>().cloned().or_else(|| e.downcast_ref::<&str>().map(|s| s.to_string())).unwrap_or_default();
                    *f2.lock().unwrap() = Some((buf, format!("PANIC: {}", msg)));
                    return;
                }
            }
        }
    });
    let mut last = 0;
    let mut stalled = 0;
    loop {
        std::thread::sleep(std::time::Duration::from_millis(200));
        if worker.is_finished() {
            break;
        }
        let now = progress.load(Ordering::SeqCst);
        if now == last {
            stalled += 1;
            if stalled >= 50 {
                let cur = current.lock().unwrap().clone();
                println!("FAILING INPUT (zone file octets): {:?} = {:?}", cur, String::from_utf8_lossy(&cur));
                println!("the reader made no progress for 10 s on this {}-octet file: it does not terminate", cur.len());
                std::process::exit(1);
            }
        } else {
            stalled = 0;
            last = now;
        }
    }
    if let Some((buf, msg)) = failed.lock().unwrap().clone() {
        println!("FAILING INPUT (zone file octets): {:?} = {:?}", buf, String::from_utf8_lossy(&buf));
        println!("{}", msg);
        std::process::exit(1);
    }
    println!("OK: {} files read, none panics or hangs", progress.load(Ordering::SeqCst));
}
