//! D29 (C06): the reader's SvcParamKey character set used half-open ranges and so refused `z` and `9`: an unknown
//! SVCB parameter whose number contains the digit 9 (written as `key19=..`) could not be read back.
#[path = "../rt.rs"]
mod rt;
use bytes::Bytes;
use domain::rdata::svcb::{SvcParams, Svcb};

fn main() {
    std::panic::set_hook(Box::new(|_| {}));
    // key 19 with value "abc", key 29 with an empty value
    let params = SvcParams::from_octets(Bytes::from_static(b"\x00\x13\x00\x03abc\x00\x1d\x00\x00")).ok().unwrap();
    let r = rt::rec("a.", Svcb::new(1, rt::n("t.example."), params).unwrap().into());
    let mut ok = rt::roundtrip("SVCB key19 key29", &r);
    match rt::read(b"a. 3600 IN SVCB 1 . key65279=x\n") {
        Ok(v) if v.len() == 1 => println!("key65279=x read"),
        other => {
            println!("FAIL: `key65279=x` is refused: {:?}", other.map(|v| v.len()));
            ok = false;
        }
    }
    if !ok {
        std::process::exit(1);
    }
    println!("OK");
}
