//! D46 (C07): the decimal-number scanners (`impl_scan_unsigned!` for u8..u128 and `Scan for Ttl`, base/scan.rs) guard the
//! multiplication by ten with `checked_mul` but add the digit with a plain `+=`: a number that exceeds the type's
//! range only in its last digit (`$TTL 4294967299`, an MX preference of 65539, a DS algorithm of 259) overflows --
//! a panic in builds with overflow checks, and a silently wrapped value (3) without them. The reader must return an
//! error instead.
use domain::zonefile::inplace::{Entry, Zonefile};

fn read(text: &str) -> String {
    let t = text.as_bytes().to_vec();
    let r = std::panic::catch_unwind(move || {
        let mut zf = Zonefile::from(&t[..]);
        let mut out = String::new();
        loop {
            match zf.next_entry() {
                Ok(Some(Entry::Record(r))) => out += &format!("record ttl={} {}; ", r.ttl().as_secs(), r.data()),
                Ok(Some(_)) => out += "include; ",
                Ok(None) => break,
                Err(e) => {
                    out += &format!("ERR {}", e);
                    break;
                }
            }
        }
        out
    });
    r.unwrap_or_else(|_| "PANIC".to_string())
}
fn main() {
    std::panic::set_hook(Box::new(|_| {}));
    let mut ok = true;
    // in range: accepted with the stated value
    for (t, want) in [
        ("$TTL 4294967295\nexample. IN A 192.0.2.1\n", "ttl=4294967295"),
        ("example. 4294967295 IN MX 65535 mail.example.\n", "65535 mail.example"),
    ] {
        let r = read(t);
        println!("{:?} -> {}", t, r);
        if !r.contains(want) {
            println!("FAIL: a number at the upper limit of its type is not read as itself");
            ok = false;
        }
    }
    // out of range in the last digit only: must be an error, not a panic and not a wrapped value
    for t in [
        "$TTL 4294967299\nexample. IN A 192.0.2.1\n",
        "example. 4294967296 IN A 192.0.2.1\n",
        "example. 300 IN MX 65539 mail.example.\n",
        "example. 300 IN DS 65536 8 2 00\n",
        "example. 300 IN DS 1 259 2 00\n",
        "example. 300 IN TLSA 256 1 1 00\n",
    ] {
        let r = read(t);
        println!("{:?} -> {}", t, r);
        if r == "PANIC" {
            println!("FAIL: the reader panics (arithmetic overflow)");
            ok = false;
        } else if !r.contains("ERR") {
            println!("FAIL: an out-of-range number was accepted (wrapped)");
            ok = false;
        }
    }
    if !ok {
        std::process::exit(1);
    }
    println!("OK");
}
