//! D47 (C07): `SourceBuf::skip_unknown_marker` (the `\#` token of the RFC 3597 generic record data form) moved the read
//! position past the character that *ends* the `\#` token instead of just past the token: an opening parenthesis, a
//! semicolon or a line feed directly after `\#` was swallowed. `TYPE1 \#( 4 01020304 )` failed with "unbalanced
//! parens", `\#;comment` read the comment text as tokens, and `\#` at the end of a line pulled the next line into
//! the entry. The result must not depend on whether white space separates `\#` from what follows.
use domain::zonefile::inplace::{Entry, Zonefile};

fn read(text: &str) -> String {
    let t = text.as_bytes().to_vec();
    let r = std::panic::catch_unwind(move || {
        let mut zf = Zonefile::from(&t[..]);
        let mut out = String::new();
        loop {
            match zf.next_entry() {
                Ok(Some(Entry::Record(r))) => out += &format!("{} {} {}; ", r.owner(), r.rtype(), r.data()),
                Ok(Some(_)) => out += "include; ",
                Ok(None) => break,
                Err(e) => {
                    out += &format!("ERR {}", e);
                    break;
                }
            }
        }
        out
    });
    r.unwrap_or_else(|_| "PANIC".to_string())
}
fn main() {
    std::panic::set_hook(Box::new(|_| {}));
    let mut ok = true;
    let pairs = [
        // (spaced layout, glued layout): same logical content
        ("example. 300 IN TYPE731 \\# ( 4 01020304 )\n", "example. 300 IN TYPE731 \\#( 4 01020304 )\n"),
        ("example. 300 IN TYPE731 ( \\# ;c\n 4 01020304 )\n", "example. 300 IN TYPE731 ( \\#;c\n 4 01020304 )\n"),
        ("example. 300 IN TYPE731 ( \\# \n 4 01020304 )\n", "example. 300 IN TYPE731 ( \\#\n 4 01020304 )\n"),
        // `\#` without data at the end of a line: an error for this entry; the next line is its own entry
        ("example. 300 IN TYPE731 \\# \nexample. 300 IN A 192.0.2.1\n", "example. 300 IN TYPE731 \\#\nexample. 300 IN A 192.0.2.1\n"),
    ];
    for (a, b) in pairs {
        let (ra, rb) = (read(a), read(b));
        println!("{:?} -> {}\n{:?} -> {}", a, ra, b, rb);
        if ra != rb {
            println!("FAIL: the two layouts of the same content read differently");
            ok = false;
        }
        if ra == "PANIC" || rb == "PANIC" {
            println!("FAIL: panic");
            ok = false;
        }
    }
    if !ok {
        std::process::exit(1);
    }
    println!("OK");
}
