//! C10 native search (a bounded exploration of the real crate, run on every check; it also supplies the concrete input when a Verus obligation of the property fails): every response stream of at most 6 records over {SOA serial 1, SOA serial 2,
//! SOA serial 3, A .1, A .2}, as AXFR and as IXFR, in one message and split into two messages, is fed to the real
//! XfrResponseInterpreter and the updates it emits are compared with the RFC 5936 / RFC 1995 stream automaton that
//! the unit's contract states (xfr_step). A panic or a differing update sequence is the failing stream.
use bytes::{Bytes, BytesMut};
use domain::base::iana::Rcode;
use domain::base::name::Name;
use domain::base::{Message, MessageBuilder, Rtype, Serial, Ttl};
use domain::net::xfr::protocol::{ParsedRecord, XfrResponseInterpreter};
use domain::rdata::{Soa, A};
use domain::zonetree::types::ZoneUpdate;
use std::str::FromStr;

#[derive(Clone, Copy, Debug, PartialEq)]
enum R {
    S(u32),
    A(u8),
}
const ALPHABET: [R; 5] = [R::S(1), R::S(2), R::S(3), R::A(1), R::A(2)];

fn soa(serial: u32) -> Soa<Name<Bytes>> {
    Soa::new(Name::from_str("mname.").unwrap(), Name::from_str("rname.").unwrap(), Serial(serial), Ttl::from_secs(1), Ttl::from_secs(2), Ttl::from_secs(3), Ttl::from_secs(4))
}
fn mk(qtype: Rtype, with_q: bool, recs: &[R]) -> Message<Bytes> {
    let mut mb = MessageBuilder::from_target(BytesMut::new()).unwrap();
    mb.header_mut().set_qr(true);
    mb.header_mut().set_rcode(Rcode::NOERROR);
    let mut q = mb.question();
    let apex = Name::<Bytes>::from_str("example.com.").unwrap();
    if with_q {
        q.push((&apex, qtype)).unwrap();
    }
    let mut a = q.answer();
    for r in recs {
        match r {
            R::S(s) => a.push((&apex, 30, soa(*s))).unwrap(),
            R::A(n) => a.push((&apex, 30, A::from_octets(10, 0, 0, *n))).unwrap(),
        }
    }
    a.into_message()
}
fn describe(u: &ZoneUpdate<ParsedRecord>) -> &'static str {
    match u {
        ZoneUpdate::DeleteAllRecords => "DeleteAll",
        ZoneUpdate::DeleteRecord(_) => "Delete",
        ZoneUpdate::AddRecord(_) => "Add",
        ZoneUpdate::BeginBatchDelete(_) => "BeginDelete",
        ZoneUpdate::BeginBatchAdd(_) => "BeginAdd",
        ZoneUpdate::Finished(_) => "Finished",
        _ => "other",
    }
}

/// the automaton of units/xfr (xfr_step), over a whole stream; "ERR" ends the output
fn reference(ixfr: bool, recs: &[R]) -> Vec<&'static str> {
    let mut out = Vec::new();
    let (mut ty_ixfr, mut adding, mut n, mut del_done, mut fin) = (ixfr, true, 0usize, false, false);
    let initial = recs.first().copied();
    for r in recs {
        let is_soa = matches!(r, R::S(_));
        let same = is_soa && Some(*r) == initial;
        if fin {
            out.push("ERR");
            break;
        }
        if n == 0 {
            n = 1;
            if !is_soa {
                out.push("ERR");
                break;
            }
            continue;
        }
        let fallback = ty_ixfr && n == 1 && !is_soa;
        if fallback {
            ty_ixfr = false;
        }
        let upd = if !ty_ixfr {
            if same && !fallback { "Finished" } else { "Add" }
        } else if is_soa {
            if adding {
                adding = false;
                if same { "Finished" } else { "BeginDelete" }
            } else {
                adding = true;
                "BeginAdd"
            }
        } else if !adding {
            "Delete"
        } else {
            "Add"
        };
        if !ty_ixfr && !del_done {
            del_done = true;
            out.push("DeleteAll");
        }
        out.push(upd);
        n += 1;
        fin = upd == "Finished";
    }
    out
}

fn run_real(qtype: Rtype, msgs: &[&[R]]) -> Vec<&'static str> {
    let mut interp = XfrResponseInterpreter::new();
    let mut out = Vec::new();
    'outer: for (i, recs) in msgs.iter().enumerate() {
        if recs.is_empty() {
            continue;
        }
        match interp.interpret_response(mk(qtype, i == 0, recs)) {
            Err(_) => {
                out.push("ERR");
                break;
            }
            Ok(it) => {
                for u in it {
                    match u {
                        Ok(u) => out.push(describe(&u)),
                        Err(_) => {
                            out.push("ERR");
                            break 'outer;
                        }
                    }
                }
            }
        }
    }
    out
}

fn main() {
    std::panic::set_hook(Box::new(|_| {}));
    let k = ALPHABET.len();
    let mut checked = 0u64;
    for len in 1..=6usize {
        for mut idx in 0..k.pow(len as u32) {
            let mut recs = Vec::with_capacity(len);
            for _ in 0..len {
                recs.push(ALPHABET[idx % k]);
                idx /= k;
            }
            for (ixfr, qtype) in [(false, Rtype::AXFR), (true, Rtype::IXFR)] {
                // a first IXFR message with a single SOA is the "retry over TCP" signal: not a stream (skipped)
                for split in [len, len / 2] {
                    if ixfr && (split == 1 || len == 1) {
                        continue;
                    }
                    if split == 0 {
                        continue;
                    }
                    let expect = reference(ixfr, &recs);
                    let r2 = recs.clone();
                    let got = std::panic::catch_unwind(move || run_real(qtype, &[&r2[..split], &r2[split..]]));
                    checked += 1;
                    match got {
                        Ok(g) if g == expect => {}
                        Ok(g) => {
                            println!("FAILING STREAM ({}, first message {} records): {:?}", if ixfr { "IXFR" } else { "AXFR" }, split, recs);
                            println!("  interpreter: {:?}\n  RFC automaton: {:?}", g, expect);
                            std::process::exit(1);
                        }
                        Err(_) => {
                            println!("FAILING STREAM ({}, first message {} records): {:?}\n  PANIC", if ixfr { "IXFR" } else { "AXFR" }, split, recs);
                            std::process::exit(1);
                        }
                    }
                }
            }
        }
    }
    println!("OK: {} streams, the interpreter follows the automaton", checked);
}
