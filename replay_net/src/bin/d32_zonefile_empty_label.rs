//! D32 (C03/C07): the zone-file reader accepted an empty label in the middle of a name (`a..b.`) and built a name
//! value with an embedded root label through `from_octets_unchecked`: an invalid domain name value.
#[path = "../rt.rs"]
mod rt;
use domain::base::name::Name;
use domain::base::ToName;

fn check(line: &str, must_fail: bool) -> bool {
    match rt::read(line.as_bytes()) {
        Ok(v) => {
            let mut ok = !must_fail;
            for r in &v {
                let wire = r.owner().to_vec();
                let valid = Name::from_octets(wire.as_slice().to_vec()).is_ok();
                println!("{:?}: accepted, owner wire {:?}, a valid name: {}", line, wire.as_slice(), valid);
                ok &= valid;
            }
            if must_fail {
                println!("FAIL: a name with an empty inner label was accepted");
            }
            ok
        }
        Err(e) => {
            println!("{:?}: {}", line, e);
            must_fail && e != "PANIC"
        }
    }
}
fn main() {
    std::panic::set_hook(Box::new(|_| {}));
    let mut ok = true;
    ok &= check("a..b. 3600 IN A 1.2.3.4\n", true);
    ok &= check("a. 3600 IN CNAME x..y.\n", true);
    ok &= check("a.b. 3600 IN A 1.2.3.4\n", false);
    ok &= check(". 3600 IN NS a.\n", false);
    if !ok {
        std::process::exit(1);
    }
    println!("OK");
}
