//! D16 (C07): the zone-file reader panics (index out of bounds) on a TXT record without data and on a quoted
//! string that is the last thing in a file without a final line feed.
use domain::base::name::Name;
use domain::zonefile::inplace::Zonefile;
use std::str::FromStr;
fn run(text: &str) -> bool {
    let bytes = text.as_bytes().to_vec();
    let r = std::panic::catch_unwind(move || {
        let mut zf = Zonefile::from(&bytes[..]);
        zf.set_origin(Name::from_str("example.").unwrap());
        let mut n = 0;
        loop {
            match zf.next_entry() {
                Ok(Some(_)) => n += 1,
                Ok(None) => return format!("{} entries", n),
                Err(e) => return format!("error: {}", e),
            }
        }
    });
    match r {
        Ok(s) => { println!("{:?} -> {}", text, s); true }
        Err(_) => { println!("{:?} -> PANIC", text); false }
    }
}
fn main() {
    let mut ok = true;
    for t in ["a 3600 IN A 192.0.2.1", "a 3600 IN MX 10 mail", "a 3600 IN TXT \"abc\"", "a 3600 IN TXT\n", "a 3600 IN TXT \"abc\"\n", "a 3600 IN HINFO \"cpu\" \"os\""] {
        ok &= run(t);
    }
    if !ok { std::process::exit(1); }
    println!("OK");
}
