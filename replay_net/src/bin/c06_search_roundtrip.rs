//! C06 native search (a bounded exploration of the real crate, run on every check): about 90 records of 28 types with
//! boundary field values -- names with every kind of octet and of 255 octets, character strings with all octet values,
//! of 255 octets and with spaces and quotes, TXT with many strings, empty binary fields, unknown types, odd SVCB
//! parameters -- are written in the three zone-file display kinds and read back with the zone-file reader; every one
//! has to come back equal. (The open findings D30 and D42 are not among the cases.)
#[path = "../rt.rs"]
mod rt;
use bytes::Bytes;
use domain::base::charstr::CharStr;
use domain::base::iana::*;
use domain::base::rdata::UnknownRecordData;
use domain::base::{Rtype, Serial, Ttl};
use domain::rdata::dnssec::{RtypeBitmap, Timestamp};
use domain::rdata::ipseckey::IpseckeyGateway;
use domain::rdata::nsec3::{Nsec3Salt, OwnerHash};
use domain::rdata::svcb::SvcParams;
use domain::rdata::*;
use rt::{n, rec};
use std::str::FromStr;

fn cs(b: &[u8]) -> CharStr<Bytes> {
    CharStr::from_octets(Bytes::copy_from_slice(b)).unwrap()
}

fn main() {
    std::panic::set_hook(Box::new(|_| {}));
    let b = |x: &'static [u8]| Bytes::from_static(x);
    let mut bm = RtypeBitmap::<Bytes>::builder();
    for t in [Rtype::A, Rtype::NSEC, Rtype::from_int(1234), Rtype::from_int(65535), Rtype::ANY, Rtype::OPT] {
        bm.add(t).unwrap();
    }
    let bm = bm.finalize();
    let empty_bm = RtypeBitmap::<Bytes>::builder().finalize();
    let mut all = Vec::new();
    let mut add = |label: &str, r: rt::R| all.push((label.to_string(), r));

    // owner names with every kind of octet
    for owner in ["a.", ".", "a\\.b.example.", "\\000\\255x.y.", "\\@.\\$x.", "\\\"\\;\\(\\).z.", "a\\ b.c.", "\\127.", "IN.", "3600."] {
        add(&format!("owner {}", owner), rec(owner, A::from_octets(1, 2, 3, 4).into()));
    }
    let l63 = "a".repeat(63);
    let long = format!("{l63}.{l63}.{l63}.{}.", "b".repeat(61));
    add("name of 255 octets", rec(&long, Cname::new(n(&long)).into()));
    let esc63 = "\\000".repeat(63);
    let longe = format!("{esc63}.{esc63}.{esc63}.{}.", "\\255".repeat(61));
    add("escaped name of 255 octets", rec(&longe, Ns::new(n(&longe)).into()));

    // character strings
    let all256: Vec<u8> = (0u8..=255).collect();
    add("HINFO all octets", rec("a.", Hinfo::new(cs(&all256[..255]), cs(&all256[1..])).into()));
    add("HINFO 255 spaces", rec("a.", Hinfo::new(cs(&[b' '; 255]), cs(&[b'"'; 255])).into()));
    add("HINFO empty", rec("a.", Hinfo::new(cs(b""), cs(b"")).into()));
    for octet in [0x7fu8, 0x20, 0x22, 0x5c, 0x00, 0xff, b';', b'(', b'~'] {
        add(&format!("HINFO octet {:#x} after a space", octet), rec("a.", Hinfo::new(cs(&[b'P', b' ', octet, b'x']), cs(&[octet])).into()));
    }
    for strings in [vec![&b"abc"[..]], vec![&b""[..], &b"x y"[..], &b"\"q\""[..]], vec![&[0xffu8; 255][..], &[b' '; 255][..], &[0x7f; 3][..]], vec![&b"v=1 a\x7fb"[..]]] {
        let mut tb = domain::rdata::rfc1035::TxtBuilder::<bytes::BytesMut>::new();
        for s in &strings {
            tb.append_charstr(&CharStr::from_octets(s.to_vec()).unwrap()).unwrap();
        }
        add(&format!("TXT with {} strings", strings.len()), rec("a.", tb.finish().unwrap().into()));
    }
    let mut tb = domain::rdata::rfc1035::TxtBuilder::<bytes::BytesMut>::new();
    for i in 0..300u32 {
        tb.append_charstr(&CharStr::from_octets(vec![(i % 251) as u8; (i % 7) as usize]).unwrap()).unwrap();
    }
    add("TXT with 300 strings", rec("a.", tb.finish().unwrap().into()));
    add("NAPTR", rec("a.", Naptr::new(1, 65535, cs(b""), cs(b" "), cs(b"\\\"\x00\xff;()"), n("a\\ b.c.")).into()));

    // names in record data
    add("SOA", rec("a.", Soa::new(n("ns."), n("h\\.m.a."), Serial::from(u32::MAX), Ttl::from_secs(u32::MAX), Ttl::from_secs(2), Ttl::from_secs(3), Ttl::from_secs(0)).into()));
    add("MX root", rec("example.", Mx::new(0, n(".")).into()));
    add("MX", rec("example.", Mx::new(65535, n("Mail.Example.")).into()));
    add("SRV", rec("example.", Srv::new(1, 2, 65535, n("a.example.")).into()));
    add("RP", rec("a.", Rp::new(n("a\\.b.example."), n(".")).into()));
    add("MINFO", rec("a.", Minfo::new(n("a."), n("b.")).into()));
    add("DNAME", rec("a.", Dname::new(n("a.")).into()));
    add("PTR", rec("4.3.2.1.in-addr.arpa.", Ptr::new(n("host.")).into()));
    add("AAAA mapped", rec("a.", Aaaa::from_str("::ffff:1.2.3.4").unwrap().into()));
    add("AAAA", rec("a.", Aaaa::from_str("2001:db8::8000:0:1").unwrap().into()));

    // DNSSEC
    add("DNSKEY", rec("a.", Dnskey::new(257, 3, SecurityAlgorithm::RSASHA256, b(b"\x01\x02\x03\x04")).unwrap().into()));
    add("DNSKEY empty key", rec("a.", Dnskey::new(0, 3, SecurityAlgorithm::from_int(200), b(b"")).unwrap().into()));
    add("DS", rec("a.", Ds::new(65535, SecurityAlgorithm::RSASHA256, DigestAlgorithm::SHA256, b(b"\x01\x02")).unwrap().into()));
    add("DS empty digest", rec("a.", Ds::new(1, SecurityAlgorithm::RSASHA256, DigestAlgorithm::SHA256, b(b"")).unwrap().into()));
    add("CDS", rec("a.", Cds::new(0, SecurityAlgorithm::from_int(0), DigestAlgorithm::from_int(0), b(b"\x00")).unwrap().into()));
    add("CDNSKEY", rec("a.", Cdnskey::new(0, 3, SecurityAlgorithm::from_int(0), b(b"\x00")).unwrap().into()));
    add("RRSIG", rec("a.", Rrsig::new(Rtype::from_int(1234), SecurityAlgorithm::RSASHA256, 2, Ttl::from_secs(300), Timestamp::from(u32::MAX), Timestamp::from(0), 7, n("signer.example."), b(b"sig")).unwrap().into()));
    add("RRSIG empty signature", rec("a.", Rrsig::new(Rtype::A, SecurityAlgorithm::RSASHA256, 2, Ttl::from_secs(300), Timestamp::from(1700000000), Timestamp::from(20240101), 7, n("a."), b(b"")).unwrap().into()));
    add("NSEC", rec("a.", Nsec::new(n("b."), bm.clone()).into()));
    add("NSEC empty bitmap", rec("a.", Nsec::new(n("c."), empty_bm.clone()).into()));
    // type lists around the window boundaries: the first and the last bit of windows 0, 1, 2, 128 and 255, alone and together
    let edge_types = [1u16, 255, 256, 257, 511, 512, 767, 32768, 65280, 65535];
    for (i, t) in edge_types.iter().enumerate() {
        let mut one = RtypeBitmap::<Bytes>::builder();
        one.add(Rtype::from_int(*t)).unwrap();
        add(&format!("NSEC type list [{t}]"), rec("a.", Nsec::new(n("b."), one.finalize()).into()));
        let mut upto = RtypeBitmap::<Bytes>::builder();
        for u in &edge_types[..=i] {
            upto.add(Rtype::from_int(*u)).unwrap();
        }
        add(&format!("NSEC type list {:?}", &edge_types[..=i]), rec("a.", Nsec::new(n("b."), upto.finalize()).into()));
    }
    add("NSEC3", rec("a.", Nsec3::new(Nsec3HashAlgorithm::SHA1, 1, 10, Nsec3Salt::from_octets(b(b"\xab\xcd")).unwrap(), OwnerHash::from_octets(b(b"01234567890123456789")).unwrap(), bm.clone()).into()));
    add("NSEC3 no salt, empty bitmap", rec("a.", Nsec3::new(Nsec3HashAlgorithm::SHA1, 1, 10, Nsec3Salt::from_octets(b(b"")).unwrap(), OwnerHash::from_octets(b(b"0123456789012345678")).unwrap(), empty_bm.clone()).into()));
    add("NSEC3 1-octet hash", rec("a.", Nsec3::new(Nsec3HashAlgorithm::SHA1, 1, 10, Nsec3Salt::from_octets(b(b"\x00")).unwrap(), OwnerHash::from_octets(b(b"\xff")).unwrap(), empty_bm.clone()).into()));
    // hashes of every length 1..=21 (all five tail shapes of Base32hex, twice), last octet with all / no low bits set
    for len in 1..=21usize {
        for last in [0xffu8, 0x00, 0x01, 0x80] {
            let mut h = vec![0x5au8; len];
            h[len - 1] = last;
            add(&format!("NSEC3 {len}-octet hash ending in {last:#04x}"), rec("a.", Nsec3::new(Nsec3HashAlgorithm::SHA1, 0, 1, Nsec3Salt::from_octets(b(b"\x01")).unwrap(), OwnerHash::from_octets(Bytes::from(h)).unwrap(), bm.clone()).into()));
        }
    }
    add("NSEC3PARAM", rec("a.", Nsec3param::new(Nsec3HashAlgorithm::SHA1, 0, 65535, Nsec3Salt::from_octets(b(b"")).unwrap()).into()));
    add("NSEC3PARAM 255-octet salt", rec("a.", Nsec3param::new(Nsec3HashAlgorithm::SHA1, 0, 0, Nsec3Salt::from_octets(Bytes::from(vec![0xabu8; 255])).unwrap()).into()));

    // others
    add("IPSECKEY none", rec("a.", Ipseckey::new(10, IpseckeyAlgorithm::RSA, IpseckeyGateway::None, b(b"key")).into()));
    add("IPSECKEY v4", rec("a.", Ipseckey::new(10, IpseckeyAlgorithm::RSA, IpseckeyGateway::Ipv4(A::from_octets(1, 2, 3, 4)), b(b"key")).into()));
    add("IPSECKEY v6", rec("a.", Ipseckey::new(10, IpseckeyAlgorithm::RSA, IpseckeyGateway::Ipv6(Aaaa::from_str("::1").unwrap()), b(b"key")).into()));
    add("IPSECKEY name", rec("a.", Ipseckey::new(10, IpseckeyAlgorithm::RSA, IpseckeyGateway::Name(n("gw.example.")), b(b"key")).into()));
    add("IPSECKEY name, no key", rec("a.", Ipseckey::new(10, IpseckeyAlgorithm::NONE, IpseckeyGateway::Name(n("gw.example.")), b(b"")).into()));
    add("CAA", rec("a.", Caa::new(domain::rdata::caa::CaaFlags::new(128), domain::rdata::caa::CaaTag::from_octets(b(b"issue")).unwrap(), b(b"ca.example; a=\"b\" \\ \x00\xff")).into()));
    add("CAA empty value", rec("a.", Caa::new(domain::rdata::caa::CaaFlags::new(0), domain::rdata::caa::CaaTag::from_octets(b(b"issue")).unwrap(), b(b"")).into()));
    add("SSHFP", rec("a.", Sshfp::new(SshfpAlgorithm::RSA, SshfpType::SHA1, b(b"\x01\x02")).into()));
    add("SSHFP empty", rec("a.", Sshfp::new(SshfpAlgorithm::RSA, SshfpType::SHA1, b(b"")).into()));
    add("TLSA", rec("a.", Tlsa::new(TlsaCertificateUsage::from_int(3), TlsaSelector::from_int(1), TlsaMatchingType::from_int(1), b(b"\x01\x02")).into()));
    add("ZONEMD", rec("a.", Zonemd::new(Serial::from(u32::MAX), ZonemdScheme::from_int(1), ZonemdAlgorithm::from_int(1), Bytes::from(vec![7u8; 48])).into()));
    add("OPENPGPKEY", rec("a.", Openpgpkey::new(b(b"\x01\x02\x03")).into()));
    for (t, d) in [(65280u16, &b""[..]), (65280, &b"\x00\xff"[..]), (10, &b"abc"[..]), (255, &b"\x01"[..]), (0, &b"\x01\x02"[..])] {
        add(&format!("TYPE{} \\# {}", t, d.len()), rec("a.", UnknownRecordData::from_octets(Rtype::from_int(t), Bytes::copy_from_slice(d)).unwrap().into()));
    }
    // SVCB / HTTPS
    for (label, wire) in [("none", &b""[..]), ("alpn h2,h3", &b"\x00\x01\x00\x06\x02h2\x02h3"[..]), ("port", &b"\x00\x03\x00\x02\x01\xbb"[..]),
        ("ipv4hint", &b"\x00\x04\x00\x08\x01\x02\x03\x04\x05\x06\x07\x08"[..]), ("ech", &b"\x00\x05\x00\x03abc"[..]),
        ("ipv6hint", &b"\x00\x06\x00\x10\0\0\0\0\0\0\0\0\0\0\0\0\0\0\0\x01"[..]), ("dohpath", &b"\x00\x07\x00\x10/dns-query{?dns}"[..]),
        ("ohttp", &b"\x00\x08\x00\x00"[..]), ("tls-supported-groups", &b"\x00\x09\x00\x04\x00\x1d\x00\x17"[..]),
        ("mandatory", &b"\x00\x00\x00\x02\x00\x03\x00\x03\x00\x02\x01\xbb"[..]), ("key18", &b"\x00\x12\x00\x03abc"[..]), ("key19", &b"\x00\x13\x00\x03abc"[..]),
        ("key667 empty", &b"\x02\x9b\x00\x00"[..]), ("key667 odd octets", &b"\x02\x9b\x00\x08a b\";\x00\xff="[..]), ("key65535", &b"\xff\xff\x00\x01a"[..])] {
        let p = SvcParams::from_octets(Bytes::copy_from_slice(wire)).ok().unwrap();
        add(&format!("SVCB {}", label), rec("a.", Svcb::new(1, n("t.example."), p).unwrap().into()));
    }
    let p = SvcParams::from_octets(Bytes::from_static(b"\x00\x01\x00\x03\x02h2")).ok().unwrap();
    add("HTTPS root target", rec("a.", Https::new(1, n("."), p).unwrap().into()));

    // classes and TTLs
    for class in [Class::CH, Class::HS, Class::NONE, Class::ANY, Class::from_int(0), Class::from_int(1234)] {
        for ttl in [0u32, u32::MAX] {
            let r = domain::base::Record::new(n("a."), class, Ttl::from_secs(ttl), ZoneRecordData::from(A::from_octets(1, 2, 3, 4)));
            add(&format!("class {} ttl {}", class, ttl), r);
        }
    }

    let mut failed = 0;
    for (label, r) in &all {
        if !rt::roundtrip_quiet(label, r) {
            failed += 1;
            if failed >= 3 {
                break;
            }
        }
    }
    if failed > 0 {
        std::process::exit(1);
    }
    println!("OK: {} records read back equal from all three display kinds", all.len());
}
