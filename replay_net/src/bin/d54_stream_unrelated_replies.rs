//! D54 (C15): "every request completes ... with an error inside the configured timeout ... whatever the peer does:
//! unrelated packets, wrong IDs". net::client::stream::Transport::demux_reply restarted the response timer for *every*
//! message that parses, before looking up whether its ID belongs to an outstanding request: a peer that keeps sending
//! replies with an unknown ID (and never answers) kept the request pending for ever. With a 300 ms timeout and such a
//! peer the request must fail after about 300 ms.
use domain::base::{MessageBuilder, Name, Rtype};
use domain::net::client::request::{RequestMessage, RequestMessageMulti, SendRequest};
use domain::net::client::stream;
use std::str::FromStr;
use std::time::{Duration, Instant};
use tokio::io::AsyncWriteExt;

fn main() {
    let rt = tokio::runtime::Builder::new_current_thread().enable_time().build().unwrap();
    let code = rt.block_on(async {
        let (client, mut peer) = tokio::io::duplex(4096);
        let mut config = stream::Config::new();
        config.set_response_timeout(Duration::from_millis(300));
        let (conn, transport) = stream::Connection::<RequestMessage<Vec<u8>>, RequestMessageMulti<Vec<u8>>>::with_config(client, config);
        tokio::spawn(transport.run());
        // the peer: every 100 ms a header-only SERVFAIL response with an ID nobody asked with
        tokio::spawn(async move {
            loop {
                let msg = [0u8, 12, 0x77, 0x77, 0x80, 0x02, 0, 0, 0, 0, 0, 0, 0, 0];
                if peer.write_all(&msg).await.is_err() {
                    break;
                }
                tokio::time::sleep(Duration::from_millis(100)).await;
            }
        });
        let mut q = MessageBuilder::new_vec().question();
        q.push((Name::<Vec<u8>>::from_str("example.com.").unwrap(), Rtype::A)).unwrap();
        let req = RequestMessage::new(q.into_message()).unwrap();
        let mut r = conn.send_request(req);
        let t0 = Instant::now();
        let res = tokio::time::timeout(Duration::from_secs(4), r.get_response()).await;
        let took = t0.elapsed();
        match res {
            Ok(Err(e)) if took < Duration::from_secs(2) => {
                println!("request failed after {:?} with: {e}", took);
                println!("OK");
                0
            }
            Ok(Ok(m)) => {
                println!("FAIL: the caller was handed a message with ID {:#06x}", m.header().id());
                1
            }
            Ok(Err(e)) => {
                println!("FAIL: the request failed only after {:?} ({e}); the configured timeout is 300 ms", took);
                1
            }
            Err(_) => {
                println!("FAIL: the request is still pending after {:?} although nothing answers it; the configured timeout is 300 ms", took);
                1
            }
        }
    });
    std::process::exit(code);
}
