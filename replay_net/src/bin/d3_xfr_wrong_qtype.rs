//! D3 (C10): the first XFR response with a question type other than AXFR/IXFR hits `unreachable!()`.
use bytes::Bytes;
use domain::base::iana::{Class, Rtype};
use domain::base::name::Name;
use domain::base::{Message, MessageBuilder, Question, Serial, Ttl};
use domain::net::xfr::protocol::XfrResponseInterpreter;
use domain::rdata::Soa;
use std::str::FromStr;
fn main() {
    let apex = Name::<Vec<u8>>::from_str("example.com.").unwrap();
    let mut b = MessageBuilder::new_vec().question();
    b.header_mut().set_qr(true);
    b.push(Question::new(&apex, Rtype::A, Class::IN)).unwrap(); // not an XFR question
    let mut b = b.answer();
    let soa = Soa::new(apex.clone(), apex.clone(), Serial(1), Ttl::from_secs(1), Ttl::from_secs(1), Ttl::from_secs(1), Ttl::from_secs(1));
    b.push((&apex, Class::IN, Ttl::from_secs(1), soa)).unwrap();
    let msg = Message::from_octets(Bytes::from(b.finish())).unwrap();
    let r = std::panic::catch_unwind(move || {
        let mut interp = XfrResponseInterpreter::new();
        let res = interp.interpret_response(msg);
        res.is_err()
    });
    match r {
        Ok(true) => println!("OK: rejected with an error"),
        Ok(false) => { println!("WRONG: a response to an A question was accepted as a zone transfer"); std::process::exit(1); }
        Err(_) => { println!("PANIC in XfrResponseInterpreter::interpret_response (unreachable!() reached)"); std::process::exit(1); }
    }
}
