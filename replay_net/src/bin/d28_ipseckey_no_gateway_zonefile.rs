//! D28 (C06): the zone-file writer wrote nothing for an IPSECKEY record without a gateway, the reader requires
//! the `.` of RFC 4025 section 3.1: the written record could not be read back.
#[path = "../rt.rs"]
mod rt;
use bytes::Bytes;
use domain::base::iana::IpseckeyAlgorithm;
use domain::rdata::ipseckey::{Ipseckey, IpseckeyGateway};

fn main() {
    std::panic::set_hook(Box::new(|_| {}));
    let r = rt::rec("a.", Ipseckey::new(10, IpseckeyAlgorithm::RSA, IpseckeyGateway::None, Bytes::from_static(b"key")).into());
    if !rt::roundtrip("IPSECKEY without gateway", &r) {
        std::process::exit(1);
    }
    println!("OK");
}
