//! D17 (C06): an owner name whose first label starts with `$` is written unescaped and read as a control entry.
use domain::base::iana::Class;
use domain::base::name::{Name, ToName};
use domain::base::zonefile_fmt::{DisplayKind, ZonefileFmt};
use domain::base::{Record, Ttl};
use domain::rdata::A;
use domain::zonefile::inplace::{Entry, Zonefile};
fn main() {
    let mut bad = 0;
    for wire in [&b"\x02$x\x07example\0"[..], &b"\x01$\x07example\0"[..], &b"\x02x$\x07example\0"[..]] {
        let owner = Name::from_octets(wire.to_vec()).unwrap();
        let rec = Record::new(owner.clone(), Class::IN, Ttl::from_secs(3600), A::from_octets(192, 0, 2, 1));
        let text = format!("{}\n", rec.display_zonefile(DisplayKind::Simple));
        let mut zf = Zonefile::from(text.as_bytes());
        let back = match zf.next_entry() { Ok(Some(Entry::Record(r))) => Some(r), _ => None };
        let same = back.as_ref().map(|r| r.owner().name_eq(&owner)).unwrap_or(false);
        println!("written as {:?} -> read back equal: {}", text.trim_end(), same);
        if !same { bad += 1; }
    }
    if bad > 0 { std::process::exit(1); }
    println!("OK");
}
