//! D42 (C06, open): the ALPN (and dohpath) SVCB parameter values are written octet by octet without escaping:
//! an ALPN id containing a space, a double quote, a comma or a backslash is written as text that the reader
//! rejects or reads as something else (`alpn=a,b` comes back as two ids).
#[path = "../rt.rs"]
mod rt;
use bytes::Bytes;
use domain::rdata::svcb::{SvcParams, Svcb};

fn main() {
    std::panic::set_hook(Box::new(|_| {}));
    let mut ok = true;
    for id in [&b"a b"[..], &b"a,b"[..], &b"a\"b"[..]] {
        let mut p = vec![0u8, 1, 0, (id.len() + 1) as u8, id.len() as u8];
        p.extend_from_slice(id);
        let params = SvcParams::from_octets(Bytes::from(p)).ok().unwrap();
        let r = rt::rec("a.", Svcb::new(1, rt::n("t.example."), params).unwrap().into());
        ok &= rt::roundtrip(&format!("SVCB alpn {:?}", String::from_utf8_lossy(id)), &r);
    }
    if !ok {
        std::process::exit(1);
    }
    println!("OK");
}
