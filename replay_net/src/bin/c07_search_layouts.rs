//! C07, second half ("the result depends only on the logical content of the file") -- a bounded metamorphic exploration
//! of the real zone-file reader; never counted as a proved obligation. A logical zone (a list of records) is written in
//! a canonical layout -- one entry per line, everything explicit and absolute -- and in every combination of layout
//! choices that must not matter:
//!   * owner: absolute | relative to $ORIGIN | `@` for the origin | left out (inherited from the previous entry)
//!   * TTL:   explicit | inherited from $TTL | inherited from the last stated TTL; TTL before or after the class
//!   * class: explicit | left out (inherited) after the first entry
//!   * names in record data: absolute | relative
//!   * separators: space | tabs | several blanks; trailing comment; whole entry in parentheses; parenthesised
//!     continuation over several lines with comments inside; nothing between a token and `(`, `)`, `;` or the line feed
//!   * tokens: plain | with decimal escapes (`\097`) | with character escapes (`\a`) | quoted character strings
//!   * blank lines and comment lines between entries; CRLF line ends
//! Each variant must read back as exactly the same sequence of (owner, class, TTL, type, data) as the canonical layout.
//! In addition the limits must not depend on spelling: a label of 63 octets is accepted and one of 64 refused, a
//! character string of 255 octets is accepted and one of 256 refused, whether written plainly or with escapes, in
//! the first or a later label.
//! Part 3 -- directives and readers: (a) what stands between a record and a following entry without an owner must not
//! matter for the owner it inherits ("the last stated owner", RFC 1035 5.1): nothing, a blank line, a comment line, $TTL,
//! $ORIGIN with the same or with another origin, $ORIGIN and $TTL together; the entries read like the same file with
//! every owner written out. (b) how the octets of a file reach the reader must not matter: a file of 400 records
//! (more than 8192 octets) through Zonefile::load from a reader that hands out everything at once, 1, 7, 100, 4096,
//! 8191, 8192 or 8193 octets per call, or the file cut into two or three chained pieces at 29 cut points, reads like
//! the same octets given as a slice.
use domain::base::name::Name;
use domain::zonefile::inplace::{Entry, Zonefile};
use std::str::FromStr;

type Rec = (String, String, u32, String, String);

fn read(text: &str, origin: Option<&str>) -> Result<Vec<Rec>, String> {
    let t = text.as_bytes().to_vec();
    let o = origin.map(|s| s.to_string());
    let r = std::panic::catch_unwind(move || {
        let mut zf = Zonefile::from(&t[..]);
        if let Some(o) = o {
            zf.set_origin(Name::from_str(&o).unwrap());
        }
        let mut out = vec![];
        loop {
            match zf.next_entry() {
                Ok(Some(Entry::Record(r))) => out.push((
                    r.owner().to_string(),
                    r.class().to_string(),
                    r.ttl().as_secs(),
                    r.rtype().to_string(),
                    r.data().to_string(),
                )),
                Ok(Some(_)) => return Err("include entry".to_string()),
                Ok(None) => return Ok(out),
                Err(e) => return Err(format!("ERR {e}")),
            }
        }
    });
    match r {
        Ok(x) => x,
        Err(_) => Err("PANIC".into()),
    }
}

/// one logical record: owner label relative to the origin ("" = the origin itself), TTL, type, data tokens
/// (a token starting with '.' is a name relative to the origin, written without the dot)
struct L {
    owner: &'static str,
    ttl: u32,
    rtype: &'static str,
    data: &'static [&'static str],
}
const ORIGIN: &str = "example.com.";
const ZONE: &[L] = &[
    L { owner: "", ttl: 3600, rtype: "SOA", data: &[".ns", ".admin", "7", "3600", "600", "86400", "300"] },
    L { owner: "", ttl: 3600, rtype: "NS", data: &[".ns"] },
    L { owner: "ns", ttl: 300, rtype: "A", data: &["192.0.2.1"] },
    L { owner: "ns", ttl: 300, rtype: "AAAA", data: &["2001:db8::1"] },
    L { owner: "www", ttl: 60, rtype: "CNAME", data: &[".ns"] },
    L { owner: "", ttl: 300, rtype: "MX", data: &["10", ".mail"] },
    L { owner: "mail", ttl: 7200, rtype: "A", data: &["192.0.2.25"] },
    L { owner: "txt", ttl: 7200, rtype: "TXT", data: &["\"hello\"", "\"a b\""] },
    L { owner: "srv", ttl: 7200, rtype: "SRV", data: &["1", "2", "443", ".www"] },
];

fn abs(label: &str) -> String {
    if label.is_empty() { ORIGIN.to_string() } else { format!("{label}.{ORIGIN}") }
}
fn data_token(tok: &str, relative: bool) -> String {
    if let Some(l) = tok.strip_prefix('.') {
        if relative { l.to_string() } else { abs(l) }
    } else {
        tok.to_string()
    }
}
/// spell a word with every letter `a`..`z` of it as a decimal / character escape (names and plain tokens)
fn escape(word: &str, mode: u8) -> String {
    let mut out = String::new();
    let mut first = true;
    for ch in word.chars() {
        // escape only the first letter of the word: enough to leave every fast path
        if first && ch.is_ascii_lowercase() && mode > 0 {
            if mode == 1 { out += &format!("\\{:03}", ch as u8); } else { out += &format!("\\{ch}"); }
            first = false;
        } else {
            out.push(ch);
        }
    }
    out
}

#[derive(Clone, Copy, Debug, PartialEq)]
struct Layout {
    owner: u8,      // 0 absolute, 1 relative, 2 relative + `@`, 3 relative + `@` + inherited when repeated
    ttl: u8,        // 0 explicit, 1 $TTL where it matches else explicit, 2 last stated TTL where it matches else explicit
    ttl_first: bool, // TTL before the class
    class: bool,    // class written
    rel_data: bool, // names in record data relative
    sep: u8,        // 0 space, 1 tab, 2 three blanks
    wrap: u8,       // 0 none, 1 trailing comment, 2 data in parentheses on one line, 3 parenthesised continuation lines with comments, 4 glued parentheses around the data, 5 parentheses opening directly behind the owner, 6 nested parentheses over several lines
    esc: u8,        // 0 plain, 1 decimal escape in owner names, 2 character escape in owner names
    gaps: u8,       // 0 none, 1 blank and comment lines between entries, 2 CRLF
}

fn render(l: Layout) -> (String, Option<&'static str>) {
    let sep = match l.sep { 0 => " ", 1 => "\t", _ => "   " };
    let nl = if l.gaps == 2 { "\r\n" } else { "\n" };
    let mut out = String::new();
    let needs_origin = l.owner > 0 || l.rel_data;
    let mut origin_arg = None;
    if needs_origin {
        // half of the layouts state the origin in the file, the other half hand it to the reader
        if l.sep == 1 { origin_arg = Some(ORIGIN); } else { out += &format!("$ORIGIN {ORIGIN}{nl}"); }
    }
    let dollar_ttl = 7200u32;
    if l.ttl == 1 {
        out += &format!("$TTL {dollar_ttl}{nl}");
    }
    let mut last_owner: Option<&str> = None;
    let mut last_ttl: Option<u32> = None;
    for rec in ZONE {
        if l.gaps == 1 {
            out += &format!("{nl}; a comment line ( with \" specials{nl}   {nl}");
        }
        // owner
        let owner = if l.owner == 3 && last_owner == Some(rec.owner) {
            String::new()
        } else if l.owner >= 2 && rec.owner.is_empty() {
            "@".to_string()
        } else if l.owner >= 1 && !rec.owner.is_empty() {
            escape(rec.owner, l.esc)
        } else {
            escape(&abs(rec.owner), l.esc)
        };
        // TTL
        let ttl = match l.ttl {
            1 if rec.ttl == dollar_ttl => None,
            2 if last_ttl == Some(rec.ttl) => None,
            _ => Some(rec.ttl),
        };
        let mut head: Vec<String> = vec![];
        // the class of the first entry has nothing to be inherited from: always written there
        let class = l.class || last_owner.is_none();
        match (l.ttl_first, ttl, class) {
            (true, Some(t), true) => { head.push(t.to_string()); head.push("IN".into()); }
            (false, Some(t), true) => { head.push("IN".into()); head.push(t.to_string()); }
            (_, Some(t), false) => head.push(t.to_string()),
            (_, None, true) => head.push("IN".into()),
            (_, None, false) => {}
        }
        head.push(rec.rtype.to_string());
        let data: Vec<String> = rec.data.iter().map(|t| data_token(t, l.rel_data)).collect();
        let mut line = owner.clone();
        if l.wrap == 5 {
            // the whole entry in parentheses that open directly behind the owner (`@(`, `www(`)
            if owner.is_empty() { line += sep; }
            line += "(";
            line += sep;
            line += &head.join(sep);
            line += sep;
            line += &data.join(sep);
            line += ")";
            out += &line;
            out += nl;
            last_owner = Some(rec.owner);
            if ttl.is_some() { last_ttl = ttl; }
            continue;
        }
        // an entry without owner starts with white space
        line += sep;
        line += &head.join(sep);
        match l.wrap {
            0 => { line += sep; line += &data.join(sep); }
            1 => { line += sep; line += &data.join(sep); line += " ; trailing ( comment"; }
            2 => { line += sep; line += "( "; line += &data.join(sep); line += " )"; }
            6 => {
                // nested parentheses (the library's own multi-line writer nests blocks): the first token in the outer
                // pair, the rest in an inner one
                line += sep;
                line += "( ";
                line += &data[0];
                line += &format!(" ({nl}{sep}");
                line += &data[1..].join(sep);
                line += &format!("{nl}{sep}) )");
            }
            3 => {
                line += sep;
                line += "(";
                for d in &data {
                    line += &format!(" ; comment ){nl}{sep}{sep}{d}");
                }
                line += &format!("{nl}){sep}; end");
            }
            _ => {
                // nothing between the tokens and the parentheses / the comment
                line += sep;
                line += "(";
                line += &data.join(sep);
                line += ");c";
            }
        }
        out += &line;
        out += nl;
        last_owner = Some(rec.owner);
        if ttl.is_some() { last_ttl = ttl; }
    }
    (out, origin_arg)
}

/// reads entries until the end of the file
fn drain(mut zf: Zonefile) -> Result<Vec<Rec>, String> {
    let mut out = vec![];
    loop {
        match zf.next_entry() {
            Ok(Some(Entry::Record(r))) => {
                out.push((r.owner().to_string(), r.class().to_string(), r.ttl().as_secs(), r.rtype().to_string(), r.data().to_string()))
            }
            Ok(Some(_)) => return Err("include entry".to_string()),
            Ok(None) => return Ok(out),
            Err(e) => return Err(format!("ERR {e}")),
        }
    }
}

/// a reader that hands out at most `chunk` octets per call
struct Dribble<'a> {
    data: &'a [u8],
    chunk: usize,
}
impl std::io::Read for Dribble<'_> {
    fn read(&mut self, buf: &mut [u8]) -> std::io::Result<usize> {
        let n = self.chunk.min(buf.len()).min(self.data.len());
        buf[..n].copy_from_slice(&self.data[..n]);
        self.data = &self.data[n..];
        Ok(n)
    }
}

fn part3() -> u64 {
    use std::io::Read;
    let _ = std::panic::take_hook();
    let mut n = 0u64;
    // (a) between a record and an entry that inherits its owner
    let between: [(&str, &str); 8] = [
        ("nothing", ""),
        ("a blank line", "\n"),
        ("a comment line", "; comment\n"),
        ("$TTL", "$TTL 300\n"),
        ("$ORIGIN with the same origin", "$ORIGIN example.com.\n"),
        ("$ORIGIN with another origin", "$ORIGIN sub.example.com.\n"),
        ("$ORIGIN and $TTL", "$ORIGIN sub.example.com.\n$TTL 300\n"),
        ("$TTL and $ORIGIN and a comment", "$TTL 300\n; c\n$ORIGIN sub.example.com.\n"),
    ];
    for first_owner in ["a", "a.example.com.", "@"] {
        for (what, mid) in between {
            for indent in [" ", "\t", "    "] {
                n += 1;
                let text = format!(
                    "$ORIGIN example.com.\n{first_owner} 300 IN A 192.0.2.1\n{mid}{indent}300 IN A 192.0.2.2\n{indent}300 IN AAAA 2001:db8::1\nb.example.com. 300 IN A 192.0.2.3\n"
                );
                let owner = if first_owner == "@" { "example.com." } else { "a.example.com." };
                let explicit = format!(
                    "{owner} 300 IN A 192.0.2.1\n{owner} 300 IN A 192.0.2.2\n{owner} 300 IN AAAA 2001:db8::1\nb.example.com. 300 IN A 192.0.2.3\n"
                );
                let want = read(&explicit, None);
                let got = read(&text, None);
                if got != want || !matches!(&got, Ok(v) if v.len() == 4) {
                    println!("FAILING INPUT (zone file):\n{text}");
                    println!("with {what} between a record and the entries that inherit its owner this reads as {got:?};\nthe same content with every owner written out reads as {want:?}");
                    std::process::exit(1);
                }
            }
        }
    }
    // (b) readers
    let mut big = String::from("$ORIGIN example.com.\n$TTL 3600\n");
    for i in 0..400 {
        big.push_str(&format!("host{i:03} IN A 192.0.2.{}\n", i % 250));
    }
    let bytes = big.as_bytes();
    assert!(bytes.len() > 8192 + 100);
    let want = drain(Zonefile::from(bytes));
    if !matches!(&want, Ok(v) if v.len() == 400) {
        println!("FAILING INPUT: a 400-record file given as a slice reads as {:?}", want.as_ref().map(|v| v.len()));
        std::process::exit(1);
    }
    for chunk in [usize::MAX, 1, 7, 100, 4096, 8191, 8192, 8193] {
        n += 1;
        let got = Zonefile::load(&mut Dribble { data: bytes, chunk }).map_err(|e| e.to_string()).and_then(drain);
        if got != want {
            println!(
                "FAILING INPUT: a {}-octet file of 400 records loaded from a reader that hands out at most {chunk} octets per call reads as {:?} records; as a slice it reads as 400",
                bytes.len(), got.as_ref().map(|v| v.len())
            );
            std::process::exit(1);
        }
    }
    let cuts = [1usize, 2, 19, 20, 21, 33, 100, 1000, 4095, 4096, 4097, 8000, 8191, 8192, 8193, 9000, bytes.len() - 1];
    for &c1 in &cuts {
        n += 1;
        let (a, b) = bytes.split_at(c1);
        let got = Zonefile::load(&mut a.chain(b)).map_err(|e| e.to_string()).and_then(drain);
        if got != want {
            println!(
                "FAILING INPUT: a {}-octet file of 400 records loaded from two chained pieces cut at {c1} reads as {:?} records; as a slice it reads as 400",
                bytes.len(), got.as_ref().map(|v| v.len())
            );
            std::process::exit(1);
        }
    }
    for (c1, c2) in [(10usize, 20usize), (100, 8192), (4096, 8192), (8192, 8300), (20, 9000), (8191, 8193), (1, 2), (5000, 5001), (33, 8500), (8000, 9500), (2000, 4000), (8192, 8193)] {
        n += 1;
        let (a, rest) = bytes.split_at(c1);
        let (b, c) = rest.split_at(c2 - c1);
        let got = Zonefile::load(&mut a.chain(b).chain(c)).map_err(|e| e.to_string()).and_then(drain);
        if got != want {
            println!(
                "FAILING INPUT: a {}-octet file of 400 records loaded from three chained pieces cut at {c1} and {c2} reads as {:?} records; as a slice it reads as 400",
                bytes.len(), got.as_ref().map(|v| v.len())
            );
            std::process::exit(1);
        }
    }
    n
}

fn main() {
    std::panic::set_hook(Box::new(|_| {}));
    let canonical = Layout { owner: 0, ttl: 0, ttl_first: true, class: true, rel_data: false, sep: 0, wrap: 0, esc: 0, gaps: 0 };
    let (text, o) = render(canonical);
    let want = match read(&text, o) {
        Ok(v) if v.len() == ZONE.len() => v,
        other => {
            println!("FAILING INPUT: the canonical layout is not read as {} records: {:?}\n{}", ZONE.len(), other, text);
            std::process::exit(1);
        }
    };
    // the canonical reading is what the logical zone says
    for (rec, got) in ZONE.iter().zip(&want) {
        if got.0.trim_end_matches('.') != abs(rec.owner).trim_end_matches('.') || got.2 != rec.ttl || got.3 != rec.rtype || got.1 != "IN" {
            println!("FAILING INPUT: canonical layout, record {:?} read as {:?}", (rec.owner, rec.ttl, rec.rtype), got);
            std::process::exit(1);
        }
    }
    let mut n = 0u64;
    for owner in 0..4u8 { for ttl in 0..3u8 { for ttl_first in [true, false] { for class in [true, false] { for rel_data in [false, true] {
    for sep in 0..3u8 { for wrap in 0..7u8 { for esc in 0..3u8 { for gaps in 0..3u8 {
        let l = Layout { owner, ttl, ttl_first, class, rel_data, sep, wrap, esc, gaps };
        let (text, o) = render(l);
        n += 1;
        match read(&text, o) {
            Ok(got) if got == want => {}
            other => {
                println!("FAILING INPUT (zone file, origin argument {:?}):\n{}", o, text);
                println!("layout {:?}", l);
                match other {
                    Ok(got) => {
                        for (i, (g, w)) in got.iter().zip(&want).enumerate() {
                            if g != w { println!("record {i}: read {:?}, the canonical layout gives {:?}", g, w); }
                        }
                        if got.len() != want.len() { println!("{} records read, the canonical layout gives {}", got.len(), want.len()); }
                    }
                    Err(e) => println!("the reader says: {e}; the canonical layout of the same content is read as {} records", want.len()),
                }
                std::process::exit(1);
            }
        }
    }}}} }}}}}
    // limits must not depend on spelling
    let mut m = 0u64;
    for len in [1usize, 62, 63, 64, 65] {
        for pos in 0..2 {            // the long label first or after another label
            for prior_escape in [false, true] {   // an earlier label of the name contains an escape
                let mut verdicts = vec![];
                for esc in 0..3u8 {
                    let long = match esc { 0 => "x".repeat(len), 1 => format!("\\120{}", "x".repeat(len - 1)), _ => format!("\\x{}", "x".repeat(len - 1)) };
                    let other = if prior_escape { "a\\.b" } else { "ab" };
                    let name = if pos == 0 { format!("{long}.{other}.example.") } else { format!("{other}.{long}.example.") };
                    let text = format!("{name} 300 IN A 192.0.2.1\n");
                    m += 1;
                    let r = read(&text, None);
                    let ok = match &r { Ok(v) => v.len() == 1, Err(_) => false };
                    if let Ok(v) = &r {
                        // an accepted name has the label with its full length
                        if ok && !v[0].0.contains(&"x".repeat(len)) {
                            println!("FAILING INPUT: {text:?} read as owner {:?}", v[0].0);
                            std::process::exit(1);
                        }
                    }
                    if r == Err("PANIC".into()) {
                        println!("FAILING INPUT: {text:?}: the reader panics");
                        std::process::exit(1);
                    }
                    verdicts.push((esc, ok, text));
                }
                let expect = len <= 63;
                for (esc, ok, text) in &verdicts {
                    if *ok != expect {
                        println!("FAILING INPUT: {text:?}: a label of {len} octets (spelling {esc}: 0 plain, 1 decimal escape, 2 character escape) is {}", if *ok { "accepted" } else { "refused" });
                        std::process::exit(1);
                    }
                }
            }
        }
    }
    for len in [0usize, 1, 254, 255, 256, 257] {
        for form in 0..4u8 {
            let body = "y".repeat(len.saturating_sub(1));
            let s = if len == 0 { String::new() } else {
                match form { 0 | 1 => format!("y{body}"), 2 => format!("\\121{body}"), _ => format!("\\y{body}") }
            };
            let tok = if form == 0 && len > 0 { s.clone() } else { format!("\"{s}\"") };
            let text = format!("t.example. 300 IN TXT {tok}\n");
            m += 1;
            let r = read(&text, None);
            let ok = matches!(&r, Ok(v) if v.len() == 1);
            if r == Err("PANIC".into()) {
                println!("FAILING INPUT: TXT with a {len}-octet string (form {form}): the reader panics");
                std::process::exit(1);
            }
            if ok != (len <= 255) {
                println!("FAILING INPUT: TXT with one character string of {len} octets (form {form}: 0 unquoted, 1 quoted, 2 quoted with decimal escape, 3 quoted with character escape) is {}", if ok { "accepted" } else { "refused" });
                std::process::exit(1);
            }
        }
    }
    let p3 = part3();
    println!("OK: {n} layouts of a {}-record zone read like the canonical layout; {m} spellings of long labels and strings judged alike; {p3} directive placements and readers make no difference", ZONE.len());
}
