//! D8 (C06): owner names containing `"`, `;`, `(` or `)` are written unescaped by the zone-file writer and are
//! mis-tokenised (or rejected) by the zone-file reader.
use domain::base::iana::Class;
use domain::base::name::Name;
use domain::base::zonefile_fmt::{DisplayKind, ZonefileFmt};
use domain::base::{Record, Ttl};
use domain::rdata::A;
use domain::zonefile::inplace::{Entry, Zonefile};
fn main() {
    let mut bad = 0;
    for special in [b'"', b';', b'(', b')', b'@', b'$'] {
        let wire = [3, b'a', special, b'b', 7, b'e', b'x', b'a', b'm', b'p', b'l', b'e', 0];
        let owner = Name::from_octets(wire.to_vec()).unwrap();
        let rec = Record::new(owner.clone(), Class::IN, Ttl::from_secs(3600), A::from_octets(192, 0, 2, 1));
        let text = format!("{}\n", rec.display_zonefile(DisplayKind::Simple));
        let mut zf = Zonefile::from(text.as_bytes());
        let back = match zf.next_entry() {
            Ok(Some(Entry::Record(r))) => Some(r),
            _ => None,
        };
        let same = back.as_ref().map(|r| { use domain::base::name::ToName; r.owner().name_eq(&owner) }).unwrap_or(false);
        println!("owner label a{}b: written as {:?} -> read back equal: {}", special as char, text.trim_end(), same);
        if !same { bad += 1; }
    }
    if bad > 0 { println!("{} owner names do not survive write/read", bad); std::process::exit(1); }
    println!("OK");
}
