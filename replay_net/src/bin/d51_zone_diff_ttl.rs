//! D51 (C10): "the difference set a zone reports when a change is committed, applied to the old content, yields the new
//! content" -- the TTL is part of the content. WriteNode::update_rrset (zonetree/in_memory/write.rs) listed only the records
//! that are not in both the old and the new RRset, so replacing an RRset by the same records under another TTL gave an
//! empty diff; and the records it listed as removed were wrapped in an RRset carrying the *new* TTL.
use bytes::Bytes;
use domain::base::iana::Class;
use domain::base::name::Label;
use domain::base::{Name, Rtype, Serial, Ttl};
use domain::rdata::{Soa, ZoneRecordData, A};
use domain::zonetree::{InMemoryZoneDiff, Rrset, SharedRrset, Zone, ZoneBuilder};
use std::collections::BTreeSet;
use std::future::Future;
use std::pin::Pin;
use std::str::FromStr;
use std::sync::Arc;
use std::task::{Context, Poll, Wake, Waker};

struct Noop;
impl Wake for Noop {
    fn wake(self: Arc<Self>) {}
}
fn now<T>(mut f: Pin<Box<dyn Future<Output = T> + Send + Sync>>) -> T {
    let w = Waker::from(Arc::new(Noop));
    let mut cx = Context::from_waker(&w);
    match f.as_mut().poll(&mut cx) {
        Poll::Ready(v) => v,
        Poll::Pending => panic!("pending"),
    }
}
fn a_rrset(ttl: u32, last: &[u8]) -> SharedRrset {
    let mut rrset = Rrset::new(Rtype::A, Ttl::from_secs(ttl));
    for l in last {
        rrset.push_data(ZoneRecordData::A(A::from_octets(192, 0, 2, *l)));
    }
    SharedRrset::new(rrset)
}
fn mk_zone() -> Zone {
    let apex = Name::<Bytes>::from_str("example.com").unwrap();
    let mut b = ZoneBuilder::new(apex.clone(), Class::IN);
    let mut soa = Rrset::new(Rtype::SOA, Ttl::from_secs(300));
    let t = Ttl::from_secs(60);
    soa.push_data(ZoneRecordData::Soa(Soa::new(
        Name::<Bytes>::from_str("ns.example.com").unwrap(),
        Name::<Bytes>::from_str("admin.example.com").unwrap(),
        Serial(1), t, t, t, t,
    )));
    b.insert_rrset(&apex, SharedRrset::new(soa)).unwrap();
    b.insert_rrset(&Name::<Bytes>::from_str("x.example.com").unwrap(), a_rrset(300, &[1, 2])).unwrap();
    b.build()
}
/// one write: the edits (label, Some(new A data) | None = remove) in order, then commit; returns the diff
fn write(zone: &Zone, edits: &[(&str, Option<(u32, &[u8])>)]) -> InMemoryZoneDiff {
    let mut w = now(zone.write());
    let apex = now(w.open(true)).unwrap();
    for (l, v) in edits {
        let n = now(apex.update_child(Label::from_slice(l.as_bytes()).unwrap())).unwrap();
        match v {
            Some((ttl, v)) => now(n.update_rrset(a_rrset(*ttl, v))).unwrap(),
            None => now(n.remove_rrset(Rtype::A)).unwrap(),
        }
    }
    drop(apex);
    now(w.commit(true)).unwrap().expect("commit after open(true) returns a diff")
}
fn apply(old: &[&str], diff: &InMemoryZoneDiff) -> BTreeSet<String> {
    let mut c: BTreeSet<String> = old.iter().map(|s| s.to_string()).collect();
    for ((owner, rtype), rrset) in diff.removed.iter() {
        if *rtype == Rtype::A {
            for d in rrset.data() {
                if !c.remove(&format!("{owner} {} A {d}", rrset.ttl().as_secs())) {
                    println!("the diff removes {owner} {} A {d}, which the old version does not hold", rrset.ttl().as_secs());
                    c.insert("(removal of a record that is not there)".into());
                }
            }
        }
    }
    for ((owner, rtype), rrset) in diff.added.iter() {
        if *rtype == Rtype::A {
            for d in rrset.data() {
                c.insert(format!("{owner} {} A {d}", rrset.ttl().as_secs()));
            }
        }
    }
    c
}
fn main() {
    let old = ["x.example.com 300 A 192.0.2.1", "x.example.com 300 A 192.0.2.2"];
    let cases: [(&str, Vec<(&str, Option<(u32, &[u8])>)>, Vec<&str>); 3] = [
        ("the same records under TTL 600", vec![("x", Some((600, &[1, 2])))], vec!["x.example.com 600 A 192.0.2.1", "x.example.com 600 A 192.0.2.2"]),
        ("{.1,.2} at 300 -> {.2,.3} at 600", vec![("x", Some((600, &[2, 3])))], vec!["x.example.com 600 A 192.0.2.2", "x.example.com 600 A 192.0.2.3"]),
        ("{.1,.2} -> {.2} with the TTL kept (control)", vec![("x", Some((300, &[2])))], vec!["x.example.com 300 A 192.0.2.2"]),
    ];
    let mut ok = true;
    for (what, edits, new) in cases {
        let zone = mk_zone();
        let diff = write(&zone, &edits);
        let got = apply(&old, &diff);
        let want: BTreeSet<String> = new.iter().map(|s| s.to_string()).collect();
        println!("{what}: old + diff = {got:?}");
        if got != want {
            println!("FAIL: the new version holds {want:?}");
            ok = false;
        }
    }
    if !ok {
        std::process::exit(1);
    }
    println!("OK");
}
