//! shared by the presentation-format replays: write a record in the three zone-file display kinds, read the text
//! back with the zone-file reader, compare
use bytes::Bytes;
use domain::base::iana::Class;
use domain::base::name::{FlattenInto, Name};
use domain::base::zonefile_fmt::{DisplayKind, ZonefileFmt};
use domain::base::{Record, Ttl};
use domain::rdata::ZoneRecordData;
use domain::zonefile::inplace::{Entry, Zonefile};
use std::str::FromStr;

pub type N = Name<Bytes>;
pub type D = ZoneRecordData<Bytes, N>;
pub type R = Record<N, D>;

pub fn read(text: &[u8]) -> Result<Vec<R>, String> {
    let text = text.to_vec();
    let r = std::panic::catch_unwind(move || {
        let mut zf = Zonefile::from(&text[..]);
        let mut out = Vec::new();
        loop {
            match zf.next_entry() {
                Ok(Some(Entry::Record(r))) => {
                    let r: R = r.flatten_into();
                    out.push(r);
                }
                Ok(Some(_)) => {}
                Ok(None) => break,
                Err(e) => return Err(format!("ERR {}", e)),
            }
        }
        Ok(out)
    });
    match r {
        Ok(x) => x,
        Err(_) => Err("PANIC".into()),
    }
}

/// true iff the record reads back equal from all three display kinds
pub fn roundtrip(label: &str, rec: &R) -> bool {
    let texts = vec![
        ("Simple", format!("{}\n", rec.display_zonefile(DisplayKind::Simple))),
        ("Tabbed", format!("{}\n", rec.display_zonefile(DisplayKind::Tabbed))),
        ("Multiline", format!("{}\n", rec.display_zonefile(DisplayKind::Multiline))),
    ];
    let mut all = true;
    for (kind, text) in texts {
        let res = read(text.as_bytes());
        let ok = match &res {
            Ok(v) => v.len() == 1 && &v[0] == rec && v[0].ttl() == rec.ttl() && v[0].class() == rec.class() && v[0].owner() == rec.owner(),
            Err(_) => false,
        };
        if ok {
            println!("[{}] {}: reads back equal", label, kind);
        } else {
            println!("[{}] {}: FAIL\n   text: {:?}\n   got:  {:?}", label, kind, text, res.map(|v| v.iter().map(|r| format!("{}", r)).collect::<Vec<_>>()));
            all = false;
        }
    }
    all
}

pub fn n(s: &str) -> N {
    Name::from_str(s).unwrap()
}
pub fn rec(owner: &str, d: D) -> R {
    Record::new(n(owner), Class::IN, Ttl::from_secs(3600), d)
}

/// like `roundtrip`, but prints only failures (as FAILING INPUT)
#[allow(dead_code)]
pub fn roundtrip_quiet(label: &str, rec: &R) -> bool {
    let texts = vec![
        ("Simple", format!("{}\n", rec.display_zonefile(DisplayKind::Simple))),
        ("Tabbed", format!("{}\n", rec.display_zonefile(DisplayKind::Tabbed))),
        ("Multiline", format!("{}\n", rec.display_zonefile(DisplayKind::Multiline))),
    ];
    let mut all = true;
    for (kind, text) in texts {
        let res = read(text.as_bytes());
        let ok = match &res {
            Ok(v) => v.len() == 1 && &v[0] == rec && v[0].ttl() == rec.ttl() && v[0].class() == rec.class() && v[0].owner() == rec.owner(),
            Err(_) => false,
        };
        if !ok {
            let shown: String = text.chars().take(300).collect();
            println!("FAILING INPUT: record [{}] written in the {} form as {:?}\n  read back: {:?}", label, kind, shown, res.map(|v| v.iter().map(|r| format!("{}", r).chars().take(200).collect::<String>()).collect::<Vec<_>>()));
            all = false;
        }
    }
    all
}
